#!/usr/bin/env python3
"""Rewrites section 11.6 of DESIGN.md (seeded changes) from seeded/*/meta.json."""
import json, os, glob, re
here = os.path.dirname(os.path.dirname(os.path.abspath(__file__)))
rows = []
for d in sorted(glob.glob(os.path.join(here, 'seeded/*/meta.json'))):
    name = os.path.basename(os.path.dirname(d))
    if name.startswith('unfix-'):
        continue
    m = json.load(open(d))
    rows.append((m.get('round', 1), name, ' '.join(m['breaks']), m['needs_to_manifest'], m['detected_by_quick'], m['history']))
per_round = {}
for r in rows:
    per_round.setdefault(r[0], []).append(r)
missed = [r for r in rows if "MISSED" in r[5] or "NOT DETECTED" in r[5] or "NOT JUDGED" in r[5]]
notjudged = [r[1] for r in rows if "NOT DETECTED" in r[5] or "NOT JUDGED" in r[5]]
out = ["\n### 11.6 Seeded changes produced by independent sub-agents\n\n"
"Sub-agents were each given only the text of one to four properties and a scratch worktree of /repo (nothing from\n"
"/verif; from round 2 on also the list of ideas already used, so that they would look elsewhere), and asked for changes\n"
"that still compile and pass the 290 tests, break the property, and need something specific to manifest. Every change\n"
"kept was confirmed independently with `tools/adopt.sh` (fresh scratch worktree: patch applies, builds with and without\n"
"`-tags verif`, suite passes with the patch, the agent's demonstration fails with the patch and passes without) and is\n"
"stored as `seeded/<name>/{patch.diff, demo.*, notes.md, meta.json}`. The quick checks were then run against each\n"
"(`tools/seedtest.sh <name> quick <checks>`: patch applied to a scratch worktree of /repo HEAD, checks pointed at it\n"
"through VERIF_REPO with evidence redirected; nothing is ever applied to /repo itself). `tools/seedall.sh` re-runs all.\n\n"]
out.append("| round | changes | missed at first |\n|---|---|---|\n")
for k in sorted(per_round):
    out.append("| %d | %d | %d |\n" % (k, len(per_round[k]), len([r for r in per_round[k] if 'MISSED' in r[5] or 'NOT DETECTED' in r[5] or 'NOT JUDGED' in r[5]])))
out.append("| all | %d | %d |\n\n" % (len(rows), len(missed)))
out.append("**All %d but NJCOUNT (NJLIST: not judged on purpose, see their rows) are detected by the quick tier now.** Every miss led to a wider workload or a stronger oracle, never to a\n"
"special case for the change; after each strengthening the check was re-run on the unchanged tree (which several times\n"
"exposed a mistake of the new workload itself, corrected before going on) and against the earlier seeds. The misses:\n\n"
"| seeded change | property | needs to manifest | why it was missed / what was strengthened |\n|---|---|---|---|\n" % len(rows))
out[-1] = out[-1].replace("NJCOUNT", str(len(notjudged))).replace("NJLIST", ", ".join(notjudged))
for r in missed:
    out.append("| %s | %s | %s | %s |\n" % (r[1], r[2], r[3].replace('|', '/'), r[5].replace('|', '/')))
out.append("\nThe full list:\n\n| seeded change | breaks | needs to manifest | caught by (quick) |\n|---|---|---|---|\n")
for r in rows:
    out.append("| %s | %s | %s | %s |\n" % (r[1], r[2], r[3].replace('|', '/'), (r[4] or 'not judged').replace('|', '/')))
out.append("\nRuns against the seeds also exposed faults of the machinery itself: the extra `.spok/cache.json.bak` of\n"
"`c10-cache-backup-recovery` was reported by C01 as unexpected project content although C01 holds for that change (extra\n"
"files are now part of the state); the 10 s quiescence polling of C18 made leaking variants cost 10 s per call (workers\n"
"stop after three violations; C04 does not wait for leaks at all); runs against scratch copies used to overwrite\n"
"/verif/evidence (they now write to VERIF_OUT).\n")
p = os.path.join(here, 'DESIGN.md')
s = open(p).read()
a = s.index('\n### 11.6')
b = s.index('\n### 11.7')
open(p, 'w').write(s[:a] + ''.join(out) + s[b:])
print(len(rows), len(missed))
