#!/bin/sh
# tools/sweep.sh <tier> <seed> [seed...]: run every check at every seed, one summary line each.
tier=$1; shift
here=$(cd "$(dirname "$0")/.." && pwd)
for seed in "$@"; do
  for p in ${PROPS:-C01 C02 C03 C04 C05 C06 C07 C08 C09 C10 C11 C12 C13 C14 C15 C16 C17 C18 C19 C20}; do
    start=$(date +%s)
    out=$(VERIF_SEED=$seed "$here/check" $p $tier 2>&1); rc=$?
    end=$(date +%s)
    echo "seed=$seed $p rc=$rc $((end-start))s $(printf '%s\n' "$out" | grep -m2 'VIOLATION\|INCONCLUSIVE\|HARNESS\|BUILD' | cut -c1-300 | tr '\n' ' ')"
  done
done
