#!/bin/sh
# tools/reconfirm.sh <seed-name> [new-patch-file]
# Re-confirms a kept seeded change against /repo's current HEAD (needed after a fix: commit in
# /repo moved the code a patch touches): the patch (or its re-based replacement) applies, the
# tree builds with and without the verif tag, the unedited suite passes with it, and the kept
# demonstration still fails with it and passes without it. A re-based patch replaces
# seeded/<name>/patch.diff only when all of that holds.
name=$1; new=${2:-}
here=$(cd "$(dirname "$0")/.." && pwd)
export GOFLAGS=-mod=mod GOPROXY=off GOSUMDB=off GOTOOLCHAIN=local
d="$here/seeded/$name"
patch=${new:-$d/patch.diff}
wt=/tmp/reconfirm-$name-$$
log=/tmp/reconfirm-$$.log
git -C /repo worktree add -q --detach "$wt" HEAD || exit 2
cleanup() { git -C /repo worktree remove --force "$wt" 2>/dev/null; git -C /repo worktree prune; rm -f "$log"; }
fail() { echo "$name: REJECTED: $*"; cleanup; exit 1; }
demo_run() {
  if [ -f "$d/demo.sh" ]; then bash "$d/demo.sh" "$wt" >"$log" 2>&1; return $?; fi
  if [ -f "$d/demo_test.go.txt" ]; then
    pkg=$(sed -n 's,^// pkg: *,,p' "$d/demo_test.go.txt" | head -1)
    cp "$d/demo_test.go.txt" "$wt/$pkg/zz_seed_demo_test.go"
    (cd "$wt" && go test -run TestSeedDemo -count=1 -timeout 180s ./$pkg/ >"$log" 2>&1); rc=$?
    rm -f "$wt/$pkg/zz_seed_demo_test.go"; return $rc
  fi
  return 99
}
if [ -f "$d/demo.sh" ] || [ -f "$d/demo_test.go.txt" ]; then
  demo_run || fail "demo fails on the unmodified tree: $(tail -5 "$log")"
  have_demo=1
fi
git -C "$wt" apply "$patch" || fail "patch does not apply"
(cd "$wt" && go build ./... && go build -tags verif ./...) >"$log" 2>&1 || fail "does not build: $(tail -5 "$log")"
n=$(cd "$wt" && go test -vet=off -count=1 -json ./... 2>/dev/null | grep -c '"Action":"fail"')
[ "$n" = "0" ] || fail "existing test suite fails with the patch ($n failures)"
if [ -n "$have_demo" ]; then
  if demo_run; then fail "demo passes with the patch applied"; fi
fi
[ -n "$new" ] && cp "$new" "$d/patch.diff"
echo "$name: RECONFIRMED${have_demo:+ (demo fails with the patch, passes without)}${new:+; patch re-based onto $(git -C /repo rev-parse --short HEAD)}"
cleanup
