#!/bin/sh
# Offline set-up after a fresh restore: warm the Go build cache by building every
# binary the checks use once (from files on disk only) and run the harness self-tests.
set -e
HERE=$(cd "$(dirname "$0")/.." && pwd)
export GOFLAGS=-mod=mod GOPROXY=off GOSUMDB=off GOTOOLCHAIN=local CGO_ENABLED=1
TMP=$(mktemp -d)
trap 'rm -rf "$TMP"' EXIT
( cd "$HERE/harness" && go build -tags verif -race -o "$TMP/vcheck" ./cmd/vcheck )
( cd "$HERE/harness" && go build -tags verif -o "$TMP/vcheck-fast" ./cmd/vcheck )
( cd /repo && go build -tags verif -race -o "$TMP/spok-race" ./cmd/spok )
( cd /repo && go build -tags verif -o "$TMP/spok-plain" ./cmd/spok )
echo "setup ok"
