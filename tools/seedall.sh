#!/bin/bash
# tools/seedall.sh [tier]: every seeded change against the checks of the properties it breaks.
tier=${1:-quick}
here=$(cd "$(dirname "$0")/.." && pwd)
for d in "$here"/seeded/*/; do
  name=$(basename "$d")
  [ -f "$d/patch.diff" ] || continue
  props=$(python3 - "$d/meta.json" "$name" <<'PY'
import json,sys,re
m=json.load(open(sys.argv[1])); name=sys.argv[2]
b=m.get('breaks')
if isinstance(b,list): print(' '.join(x for x in b if re.match(r'^C\d\d$',x)))
else:
    table={'unfix-D1':'C01 C02 C14 C10','unfix-D2':'C03','unfix-D3':'C05','unfix-D4':'C17','unfix-D5':'C13','unfix-D6':'C12','unfix-D7':'C07','unfix-D8':'C08','unfix-D9':'C06','unfix-D10':'C15','unfix-D11':'C18','unfix-D12':'C01','unfix-D13':'C10','unfix-D14':'C17','unfix-D15':'C12','unfix-D16':'C01'}
    print(table.get(name,''))
PY
)
  [ -n "$props" ] || continue
  "$here/tools/seedtest.sh" "$name" "$tier" $props 2>&1 | cut -c1-160
done
