#!/bin/sh
# tools/adopt.sh <src-dir> <i> <name> <demo-kind> [pkg] [extra go test flags]
#   demo-kind: sh | gotest ; pkg e.g. hash (directory the demo test is dropped into)
# Confirms a sub-agent's seeded change independently in a fresh scratch worktree:
#   (1) patch applies, tree builds, the full existing suite passes with it;
#   (2) the demonstration fails with the patch and passes without it.
# On success copies patch/demo/notes to /verif/seeded/<name>/ and prints CONFIRMED.
src=$1; i=$2; name=$3; kind=$4; pkg=${5:-}; flags=${6:-}
here=$(cd "$(dirname "$0")/.." && pwd)
export GOFLAGS=-mod=mod GOPROXY=off GOSUMDB=off GOTOOLCHAIN=local
wt=/tmp/adopt-$name-$$
git -C /repo worktree add -q --detach "$wt" HEAD || exit 2
cleanup() { git -C /repo worktree remove --force "$wt" 2>/dev/null; git -C /repo worktree prune; }
fail() { echo "$name: REJECTED: $*"; cleanup; exit 1; }
demo_run() { # $1 = worktree
  case $kind in
    sh) bash "$src/demo$i.sh" "$1" >/tmp/adopt-$$.log 2>&1 ;;
    gotest) cp "$src/demo${i}_test.go" "$1/$pkg/zz_seed_demo_test.go" && (cd "$1" && go test $flags -run TestSeedDemo -count=1 -timeout 180s ./$pkg/ >/tmp/adopt-$$.log 2>&1); rc=$?; rm -f "$1/$pkg/zz_seed_demo_test.go"; return $rc ;;
  esac
}
demo_run "$wt" || fail "demo fails on the unmodified tree: $(tail -5 /tmp/adopt-$$.log)"
git -C "$wt" apply "$src/patch$i.diff" || fail "patch does not apply"
(cd "$wt" && go build ./... && go build -tags verif ./...) >/tmp/adopt-$$.log 2>&1 || fail "does not build: $(tail -5 /tmp/adopt-$$.log)"
n=$(cd "$wt" && go test -vet=off -count=1 -json ./... 2>/dev/null | grep -c '"Action":"fail"')
[ "$n" = "0" ] || fail "existing test suite fails with the patch ($n failures)"
if demo_run "$wt"; then fail "demo passes with the patch applied"; fi
tail -3 /tmp/adopt-$$.log | cut -c1-200
mkdir -p "$here/seeded/$name"
cp "$src/patch$i.diff" "$here/seeded/$name/patch.diff"
case $kind in sh) cp "$src/demo$i.sh" "$here/seeded/$name/demo.sh";; gotest) cp "$src/demo${i}_test.go" "$here/seeded/$name/demo_test.go.txt";; esac
cp "$src/notes$i.md" "$here/seeded/$name/notes.md" 2>/dev/null
echo "$name: CONFIRMED (builds, suite passes with patch, demo fails with patch and passes without)"
cleanup; rm -f /tmp/adopt-$$.log
