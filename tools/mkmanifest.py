#!/usr/bin/env python3
"""Regenerates /verif/MANIFEST.json from the table below (single source of truth)."""
import json, os, subprocess, sys

HERE = os.path.dirname(os.path.dirname(os.path.abspath(__file__)))

# id -> (engine, category, technique, level text, level note, design ref)
CHECKS = {}

def add(ids, engine, category, technique, text, note, ref):
    for i in ids:
        CHECKS[i] = dict(engine=engine, category=category, technique=technique, text=text, note=note, ref=ref)

PARSE_NOTE = ("Trusted: Go toolchain and race runtime; the harness's own generators/projection; admissible text is defined by the "
              "generator derived from the lexer's rules. Held on the executions produced (bounded strings, seeded samples), not a proof.")
add(["C06"], "parse", "exploration", "runtime monitor: generated structures x admissible layouts parsed by the real parser, projection compared (race build)",
    "Every generated structure is written in many admissible layouts (and every layout of small structures) and parsed by the real parser; the monitor compares the projection of the tree with the generating structure.",
    PARSE_NOTE, "DESIGN.md 6/C06")
add(["C07", "C11", "C15"], "parse", "exploration", "runtime monitor: format round trip on enumerated class strings, generated programs and seeded mutants (race build)",
    "Bounded-exhaustive class-alphabet strings, generated programs and seeded mutants are run through the real parser and formatter; the monitor compares meaning / bytes / comments before and after.",
    PARSE_NOTE, "DESIGN.md 6/C07 C11 C15")
add(["C08"], "parse", "exploration", "runtime monitor in child workers: double parse, error-location oracle, race detector, CPU-time non-termination guard",
    "Every input is parsed twice in a supervised child process under the race detector; panics, process deaths, spins (CPU time without progress), races, nondeterminism and unlocated errors are violations.",
    PARSE_NOTE + " Non-termination is decided as >=20 CPU-seconds without progress or a structural deadlock in the goroutine dump.", "DESIGN.md 6/C08")
add(["C16"], "parse", "exploration", "runtime monitor over the real lexer's token stream (offset/line/tiling oracle), race build",
    "The token stream of the real lexer is read up to its first EOF/ERROR for every enumerated, generated and mutated input and checked token by token against the input.",
    PARSE_NOTE, "DESIGN.md 6/C16")

HIST_NOTE = ("Trusted: the side-effect log written by the commands themselves as ground truth for 'ran' and 'succeeded'; the harness's cache "
             "reference model and glob reference matcher; state merging assumes an invocation's behaviour depends only on the project directory. "
             "Exhaustive only within the stated small universes; held on the executions produced.")
add(["C01", "C02", "C14"], "history", "exploration",
    "runtime monitor over invocation histories: breadth-first search over real project states to a fixpoint + seeded random histories, cache reference model as oracle",
    "Every (state, operation) pair of a small universe is executed once by the real code (in-process, fresh SpokFile per invocation; a sample and every run without task names through the binary) on 17 spokfile shapes, to a fixpoint where reported, plus random histories in a larger universe; the monitor compares every skip / re-run with a reference model of each task's last success built from the commands' own side-effect log.",
    HIST_NOTE, "DESIGN.md 6/C01 C02 C14")
add(["C03"], "graph", "exploration",
    "runtime monitor with a recording shell.Runner over all digraphs on <=4 tasks x request lists, repeated for map-order variation; binary sample",
    "All dependency graphs on up to 3 (thorough: 4) tasks with all request sets, sampled larger ones and error variants are loaded and run repeatedly in-process with a recording runner; the monitor checks closure, exactly-once, dependency order and error-runs-nothing against a graph model.",
    "Trusted: the harness's graph model (closure, cycle detection). In-process runs execute no command; the binary sample uses printf/true/false.", "DESIGN.md 6/C03")
add(["C04"], "hash", "exploration",
    "Go race detector + metamorphic digest table over child processes under taskset x GOMAXPROCS with injected delays at hash hooks",
    "The real hasher runs in child processes for every (CPU affinity, GOMAXPROCS) configuration under the race detector with seeded delays; one global table over all content states, permutations and configurations decides 'same collection => same digest' and 'different set => different digest'.",
    "Trusted: Go race runtime, taskset; SHA-256 collisions and crafted path strings are out of scope. The race detector only sees interleavings that occur.", "DESIGN.md 6/C04")
add(["C05"], "glob", "exploration",
    "runtime monitor: every subset tree of a path pool x pattern list expanded by the real loader, compared with a reference matcher over a full directory walk",
    "Every subset of the candidate path pool is materialised; the real loader expands all patterns (twice) and the public Globs map is compared per pattern with an independent reference matcher (cross-checked against doublestar.Match at start-up).",
    "Trusted: the reference matcher; hidden = relative path begins with '.'; exhaustive over the pool and pattern list only.", "DESIGN.md 6/C05")
add(["C09", "C13", "C20"], "cli", "exploration",
    "runtime monitor over the race-built binary: generated programs, side-effect log and --json reports compared with the generating structure",
    "Seeded random programs are run through the race-built binary in sandboxes; exit status, stdout/stderr, --json reports and the commands' own side-effect log are compared with what the generating structure demands.",
    "Trusted: the in-process shell builtins (printf, test, exit) used by generated commands; expected values computed by the harness.", "DESIGN.md 6/C09 C13 C20")
add(["C10"], "crash", "fault_enumeration",
    "fault injection at every hook point (SIGKILL from inside), kill -9 inside every command position, byte-prefixes of every cache write; continuations judged by the cache model",
    "For reachable project states and runs, the run is recorded once and then repeated by the real binary with SIGKILL at every hook point index, with a self-kill in every command position and with prefixes of every cache content installed; each damaged state is followed by edit/revert/run continuations judged by the cache reference model.",
    HIST_NOTE + " A torn write is modelled as a byte-prefix of the new content; block reordering after power loss is out of reach from user space.", "DESIGN.md 6/C10")
add(["C12", "C19"], "fswatch", "exploration",
    "syscall monitor (strace -f of the race-built binary) + full before/after snapshots against the write set the action allows",
    "Random project trees x spokfiles x actions run under strace; every successful mutating system call and the full snapshot diff of the sandbox must lie inside the write set the chosen action allows (declared outputs and cache for --clean; spokfile for a loadable --fmt; new spokfile + appended .gitignore for --init; cache directory otherwise).",
    "Trusted: strace, the harness's reference denotation of outputs; the sandbox is deep enough that 'above the project' is scratch space.", "DESIGN.md 6/C12 C19")
add(["C17"], "find", "exploration",
    "runtime monitor with a step bound enforced from inside the loop (injected logger + find.iter hook) over enumerated directory chains; binary sample",
    "All directory chains of depth <=3 (thorough 4) over 10 level configurations, a sampled deeper level and nine chains of depth 33-70 x start x stop (each also through a symlink) are built and file.Find is called in-process with a counting logger and hook that stop a walk exceeding path-depth+1 iterations; the result is compared with a reference (nearest regular file named spokfile).",
    "Termination is a logical step bound, not wall-clock. Where start is not at or below stop both readings of the statement are accepted.", "DESIGN.md 6/C17")
add(["C18"], "hash", "fault_enumeration",
    "Go race detector + fault injection through hook callbacks (vanish/truncate/replace between listing, open and read), hostile entries at every position, goroutine accounting in child workers",
    "Lists with a hostile entry (missing, dangling, directory, duplicate, vanishing before open, changing after open, unreadable) at every position and sizes around 4*NumCPU are hashed repeatedly in supervised child processes per CPU configuration under the race detector; crashes, stalls, races, digests for unreadable entries and leaked worker goroutines are violations.",
    "Trusted: Go race runtime; goroutine conservation = start/exit hook events and runtime.NumGoroutine after quiescence polling.", "DESIGN.md 6/C18")

PENDING = {}

def main():
    props = [json.loads(l)["id"] for l in open(os.path.join(HERE, "properties.jsonl"))]
    hook_commits = subprocess.run(["git", "-C", "/repo", "log", "--format=%H", "--grep=^verif:"], capture_output=True, text=True).stdout.split()
    m = {
        "version": 1,
        "setup_cmd": "./tools/setup.sh",
        "hooks": {
            "guard": "verif",
            "enable": "go build -tags verif (./check builds vcheck, vcheck-fast, spok-race and spok-plain from /repo's working tree with -tags verif; vcheck and spok-race also with -race)",
            "baseline_off_cmd": "cd /repo && GOFLAGS=-mod=mod go test -json -vet=off -count=1 -timeout 25m ./...",
            "source_commits": hook_commits,
            "add_only": True,
        },
        "engines": [],
        "checks": [],
        "not_applicable": [],
        "notes": "Technique family: runtime monitoring and sanitizers. Every check executes the real spok code (packages linked into the harness, or the spok binary built from /repo's working tree) under generated, enumerated, hostile and fault-injected workloads; an oracle over the observed events decides. See DESIGN.md. VERIF_REPO=<dir> points the checks at a scratch copy of the repository instead of /repo (used for sensitivity tests only). Known findings (known_findings.json): C13 prints three KNOWN-FINDING lines (spokfile variables named PWD, IFS, OPTIND are overwritten by the embedded shell, DESIGN.md 11.3 D17) and exits 0; sixteen earlier defects were repaired by fix: commits in /repo and are listed there as fixed.",
    }
    engines = {}
    for pid in props:
        if pid in CHECKS:
            c = CHECKS[pid]
            engines.setdefault(c["engine"], []).append(pid)
            m["checks"].append({
                "property_id": pid,
                "quick_cmd": f"./check {pid} quick",
                "thorough_cmd": f"./check {pid} thorough",
                "evidence_file": f"/verif/evidence/{pid}.json",
                "replay_cmd_template": f"./check {pid} --replay {{path}}",
                "engine": c["engine"],
                "level_claimed": {"category": c["category"], "text": c["text"], "design_ref": c["ref"]},
                "level_note": c["note"],
                "technique": c["technique"],
            })
        else:
            m["not_applicable"].append({"property_id": pid, "reason": PENDING.get(pid, "check not built yet (work in progress; the design in DESIGN.md section 6 applies runtime monitoring to it)")})
    for name, ids in engines.items():
        m["engines"].append({"name": name, "path": "harness/props", "serves_properties": ids, "kind_free_text": "Go harness linking the real spok packages / driving the real binary; monitors over observed events"})
    with open(os.path.join(HERE, "MANIFEST.json"), "w") as f:
        json.dump(m, f, indent=1)
        f.write("\n")

if __name__ == "__main__":
    main()
