#!/usr/bin/env python3
"""Regenerates /verif/MANIFEST.json from the table below (single source of truth)."""
import json, os, subprocess, sys

HERE = os.path.dirname(os.path.dirname(os.path.abspath(__file__)))

# id -> (engine, category, technique, level text, level note, design ref)
CHECKS = {}

def add(ids, engine, category, technique, text, note, ref):
    for i in ids:
        CHECKS[i] = dict(engine=engine, category=category, technique=technique, text=text, note=note, ref=ref)

PARSE_NOTE = ("Trusted: Go toolchain and race runtime; the harness's own generators/projection; admissible text is defined by the "
              "generator derived from the lexer's rules. Held on the executions produced (bounded strings, seeded samples), not a proof.")
add(["C06"], "parse", "exploration", "runtime monitor: generated structures x admissible layouts parsed by the real parser, projection compared (race build)",
    "Every generated structure is written in many admissible layouts (and every layout of small structures) and parsed by the real parser; the monitor compares the projection of the tree with the generating structure.",
    PARSE_NOTE, "DESIGN.md 6/C06")
add(["C07", "C11", "C15"], "parse", "exploration", "runtime monitor: format round trip on enumerated class strings, generated programs and seeded mutants (race build)",
    "Bounded-exhaustive class-alphabet strings, generated programs and seeded mutants are run through the real parser and formatter; the monitor compares meaning / bytes / comments before and after.",
    PARSE_NOTE, "DESIGN.md 6/C07 C11 C15")
add(["C08"], "parse", "exploration", "runtime monitor in child workers: double parse, error-location oracle, race detector, CPU-time non-termination guard",
    "Every input is parsed twice in a supervised child process under the race detector; panics, process deaths, spins (CPU time without progress), races, nondeterminism and unlocated errors are violations.",
    PARSE_NOTE + " Non-termination is decided as >=20 CPU-seconds without progress or a structural deadlock in the goroutine dump.", "DESIGN.md 6/C08")
add(["C16"], "parse", "exploration", "runtime monitor over the real lexer's token stream (offset/line/tiling oracle), race build",
    "The token stream of the real lexer is read up to its first EOF/ERROR for every enumerated, generated and mutated input and checked token by token against the input.",
    PARSE_NOTE, "DESIGN.md 6/C16")

PENDING = {}

def main():
    props = [json.loads(l)["id"] for l in open(os.path.join(HERE, "properties.jsonl"))]
    hook_commits = subprocess.run(["git", "-C", "/repo", "log", "--format=%H", "--grep=^verif:"], capture_output=True, text=True).stdout.split()
    m = {
        "version": 1,
        "setup_cmd": "./tools/setup.sh",
        "hooks": {
            "guard": "verif",
            "enable": "go build -tags verif (./check builds vcheck, vcheck-fast, spok-race and spok-plain from /repo's working tree with -tags verif; vcheck and spok-race also with -race)",
            "baseline_off_cmd": "cd /repo && GOFLAGS=-mod=mod go test -json -vet=off -count=1 -timeout 25m ./...",
            "source_commits": hook_commits,
            "add_only": True,
        },
        "engines": [],
        "checks": [],
        "not_applicable": [],
        "notes": "Technique family: runtime monitoring and sanitizers. Every check executes the real spok code (packages linked into the harness, or the spok binary built from /repo's working tree) under generated, enumerated, hostile and fault-injected workloads; an oracle over the observed events decides. See DESIGN.md. VERIF_REPO=<dir> points the checks at a scratch copy of the repository instead of /repo (used for sensitivity tests only).",
    }
    engines = {}
    for pid in props:
        if pid in CHECKS:
            c = CHECKS[pid]
            engines.setdefault(c["engine"], []).append(pid)
            m["checks"].append({
                "property_id": pid,
                "quick_cmd": f"./check {pid} quick",
                "thorough_cmd": f"./check {pid} thorough",
                "evidence_file": f"/verif/evidence/{pid}.json",
                "replay_cmd_template": f"./check {pid} --replay {{path}}",
                "engine": c["engine"],
                "level_claimed": {"category": c["category"], "text": c["text"], "design_ref": c["ref"]},
                "level_note": c["note"],
                "technique": c["technique"],
            })
        else:
            m["not_applicable"].append({"property_id": pid, "reason": PENDING.get(pid, "check not built yet (work in progress; the design in DESIGN.md section 6 applies runtime monitoring to it)")})
    for name, ids in engines.items():
        m["engines"].append({"name": name, "path": "harness/props", "serves_properties": ids, "kind_free_text": "Go harness linking the real spok packages / driving the real binary; monitors over observed events"})
    with open(os.path.join(HERE, "MANIFEST.json"), "w") as f:
        json.dump(m, f, indent=1)
        f.write("\n")

if __name__ == "__main__":
    main()
