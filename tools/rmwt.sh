#!/bin/sh
for name in "$@"; do
    git -C /repo worktree remove --force "/dev/shm/wt-$name" 2>/dev/null || rm -rf "/dev/shm/wt-$name"
done
git -C /repo worktree prune
