#!/usr/bin/env python3
# Rewrites the table of DESIGN.md §11.9 from the committed evidence files (quick tier).
import json, re, glob
rows = []
for f in sorted(glob.glob('/verif/evidence/C*.json')):
    e = json.load(open(f))
    if e.get('tier') != 'quick':
        continue
    c = e['coverage']
    rows.append('| %s | %s | %s | %s | %d |' % (e['property_id'], e['level'], c.get('evaluations', ''), c.get('distinct_nontrivial', ''), round(e.get('wall_s', 0))))
p = '/verif/DESIGN.md'
s = open(p).read()
head = '| property | level | evaluations | distinct non-trivial | wall s |\n|---|---|---|---|---|\n'
i = s.index(head, s.index('### 11.9'))
j = s.index('\n\n', i)
s = s[:i] + head + '\n'.join(rows) + s[j:]
open(p, 'w').write(s)
print(len(rows), 'rows')
