#!/bin/sh
# tools/seedtest.sh <seed-dir-name> <tier> <Cxx> [Cxx...]
# Applies seeded/<name>/patch.diff to a scratch worktree of /repo HEAD (outside /repo
# and /verif), runs the given checks against it (VERIF_REPO) and removes the worktree.
# Prints one line per check: <seed> <prop> DETECTED|MISSED|OTHER(rc).
name=$1; tier=$2; shift 2
here=$(cd "$(dirname "$0")/.." && pwd)
wt=/dev/shm/wt-seed-$name-$$
git -C /repo worktree add -q --detach "$wt" HEAD || exit 2
if ! git -C "$wt" apply "$here/seeded/$name/patch.diff"; then
    echo "$name: patch does not apply"; git -C /repo worktree remove --force "$wt"; exit 2
fi
out_dir=$(mktemp -d /dev/shm/seedout.XXXXXX)
for p in "$@"; do
    out=$(VERIF_REPO="$wt" VERIF_OUT="$out_dir" "$here/check" "$p" "$tier" 2>&1); rc=$?
    n=$(printf '%s\n' "$out" | grep -c '^VIOLATION')
    case $rc in
      1) echo "$name $p DETECTED ($n witnesses) $(printf '%s\n' "$out" | grep -m1 'clause=' | cut -c1-200)";;
      0) echo "$name $p MISSED";;
      *) echo "$name $p OTHER(rc=$rc) $(printf '%s\n' "$out" | tail -2 | cut -c1-300)";;
    esac
done
rm -rf "$out_dir"
git -C /repo worktree remove --force "$wt"
git -C /repo worktree prune
