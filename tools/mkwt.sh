#!/bin/sh
# tools/mkwt.sh <name> [commit-to-revert ...]  -> scratch worktree /dev/shm/wt-<name> of /repo HEAD
# with the given commits reverted (not committed). Remove with tools/rmwt.sh <name>.
set -e
name=$1; shift
dir=/dev/shm/wt-$name
git -C /repo worktree remove --force "$dir" 2>/dev/null || true
rm -rf "$dir"
git -C /repo worktree add -q --detach "$dir" HEAD
for c in "$@"; do
    git -C "$dir" revert --no-commit "$c"
done
echo "$dir"
