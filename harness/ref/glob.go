// Package ref holds reference models that are independent of spok's code.
package ref

import (
	"os"
	"path"
	"path/filepath"
	"sort"
	"strings"
)

// expandBraces turns {a,b} alternations into a list of brace-free patterns.
func expandBraces(p string) []string {
	i := strings.IndexByte(p, '{')
	if i < 0 {
		return []string{p}
	}
	depth := 0
	j := -1
	for k := i; k < len(p); k++ {
		if p[k] == '{' {
			depth++
		} else if p[k] == '}' {
			depth--
			if depth == 0 {
				j = k
				break
			}
		}
	}
	if j < 0 {
		return []string{p}
	}
	var alts []string
	depth = 0
	start := i + 1
	for k := i + 1; k < j; k++ {
		switch p[k] {
		case '{':
			depth++
		case '}':
			depth--
		case ',':
			if depth == 0 {
				alts = append(alts, p[start:k])
				start = k + 1
			}
		}
	}
	alts = append(alts, p[start:j])
	var out []string
	for _, a := range alts {
		for _, rest := range expandBraces(p[j+1:]) {
			out = append(out, expandBraces(p[:i]+a+rest)...)
		}
	}
	return out
}

func matchSegs(ps, ss []string) bool {
	if len(ps) == 0 {
		return len(ss) == 0
	}
	if ps[0] == "**" {
		// zero or more directories
		for k := 0; k <= len(ss); k++ {
			if matchSegs(ps[1:], ss[k:]) {
				return true
			}
		}
		return false
	}
	if len(ss) == 0 {
		return false
	}
	ok, err := path.Match(ps[0], ss[0])
	if err != nil || !ok {
		return false
	}
	return matchSegs(ps[1:], ss[1:])
}

// Match reports whether the slash-separated relative path matches the pattern:
// '*', '?', '[..]' within a segment, '{a,b}' alternation, '**' as a whole segment
// standing for zero or more directories.
func Match(pattern, rel string) bool {
	pattern = strings.ReplaceAll(pattern, "[!", "[^") // path.Match only knows ^ for negated classes
	for _, p := range expandBraces(pattern) {
		if matchSegs(strings.Split(p, "/"), strings.Split(rel, "/")) {
			return true
		}
	}
	return false
}

// Denotation is the reference meaning of a glob under root: every regular file
// whose relative path matches and does not begin with a dot. A symbolic link to a regular
// file is a file, a symbolic link to a directory is a directory (its files are reached under
// the link's own path). Absolute paths, sorted.
func Denotation(root, pattern string) []string {
	var out []string
	var walk func(dir, rel string, depth int)
	walk = func(dir, rel string, depth int) {
		if depth > 16 { // links that lead back up: workloads do not build them, do not hang if one does
			return
		}
		entries, err := os.ReadDir(dir)
		if err != nil {
			return
		}
		for _, e := range entries {
			p := filepath.Join(dir, e.Name())
			r := e.Name()
			if rel != "" {
				r = rel + "/" + e.Name()
			}
			info, err := os.Stat(p) // follows links
			if err != nil {
				continue
			}
			switch {
			case info.IsDir():
				walk(p, r, depth+1)
			case info.Mode().IsRegular():
				if !strings.HasPrefix(r, ".") && Match(pattern, r) {
					out = append(out, p)
				}
			}
		}
	}
	walk(root, "", 0)
	sort.Strings(out)
	return out
}
