// vcheck is the orchestrator and (with --worker) the worker of every check.
package main

import (
	"flag"
	"fmt"
	"os"
	"os/exec"
	"strings"
	"syscall"

	"verif/harness/core"
	"verif/harness/props"
)

func main() {
	var (
		worker      = flag.Bool("worker", false, "run as a shard worker")
		prop        = flag.String("prop", "", "property id")
		tier        = flag.String("tier", "quick", "quick | thorough")
		sub         = flag.String("sub", "", "worker sub-mode")
		shard       = flag.String("shard", "0/1", "shard i/n")
		replay      = flag.String("replay", "", "replay file")
		replayInner = flag.Bool("replay-inner", false, "internal")
	)
	flag.Parse()
	c := core.NewCtx()
	c.Prop = *prop
	c.Tier = *tier
	if t := os.Getenv("VERIF_TIER"); t != "" && *replay == "" && !*worker && flag.Lookup("tier").Value.String() == "quick" && false {
		c.Tier = t
	}
	e := props.Get(c.Prop)
	if e == nil {
		core.Fatal("unknown property %q (have %v)", c.Prop, props.IDs())
	}
	if c.Scratch == "" || c.Bin == "" {
		core.Fatal("VERIF_SCRATCH / VERIF_BIN not set: run through ./check")
	}

	if *worker {
		c.Worker = true
		c.Sub = *sub
		fmt.Sscanf(*shard, "%d/%d", &c.Shard, &c.NShards)
		if e.Worker == nil {
			core.Fatal("%s has no worker mode", c.Prop)
		}
		e.Worker(c)
		return
	}

	if *replay != "" && !*replayInner {
		// run the replay in a child so that a crash of the code under test is a verdict too
		cmd := exec.Command(os.Args[0], "--prop", c.Prop, "--replay", *replay, "--replay-inner")
		cmd.Stdout, cmd.Stderr = os.Stdout, os.Stderr
		cmd.Env = append(os.Environ(), "GORACE=halt_on_error=1 exitcode=66 atexit_sleep_ms=0")
		err := cmd.Run()
		if err == nil {
			os.Exit(0)
		}
		if ee, ok := err.(*exec.ExitError); ok {
			if ws, ok := ee.Sys().(syscall.WaitStatus); ok && !ws.Signaled() && (ee.ExitCode() == 1) {
				os.Exit(1)
			}
			if ee.ExitCode() == 2 && !strings.Contains(ee.String(), "signal") {
				// Go runtime fatal errors and panics exit with 2, and so do harness errors;
				// both are printed above. A replay that kills the process is a violation.
			}
		}
		fmt.Printf("VIOLATION property=%s replay=%s\n  clause=process-death detail=the replayed case killed the process (%v)\n", c.Prop, *replay, err)
		os.Exit(1)
	}
	if *replay != "" {
		os.Exit(props.ReplayFile(c, *replay))
	}

	ok := e.Run(c)
	switch {
	case c.Violations() > 0:
		fmt.Printf("RESULT property=%s tier=%s seed=%d violations=%d wall=%.1fs\n", c.Prop, c.Tier, c.Seed, c.Violations(), c.Elapsed())
		os.Exit(1)
	case !ok:
		fmt.Printf("RESULT property=%s tier=%s seed=%d inconclusive wall=%.1fs\n", c.Prop, c.Tier, c.Seed, c.Elapsed())
		os.Exit(2)
	default:
		fmt.Printf("RESULT property=%s tier=%s seed=%d held wall=%.1fs\n", c.Prop, c.Tier, c.Seed, c.Elapsed())
	}
}
