// Package core holds what every property engine shares: the seeded PRNG,
// run context, violation reporting with replay files and known findings,
// evidence writing, and the sharded worker-process runner.
package core

import (
	"crypto/sha256"
	"encoding/binary"
	"encoding/hex"
	"encoding/json"
	"fmt"
	"os"
	"path/filepath"
	"sort"
	"strconv"
	"strings"
	"sync"
	"time"
)

// ---------------------------------------------------------------------------
// PRNG: splitmix64, keyed. Every random choice of a run derives from VERIF_SEED.

type Rng struct{ s uint64 }

func mix(z uint64) uint64 {
	z += 0x9e3779b97f4a7c15
	z = (z ^ (z >> 30)) * 0xbf58476d1ce4e5b9
	z = (z ^ (z >> 27)) * 0x94d049bb133111eb
	return z ^ (z >> 31)
}

// NewRng derives an independent stream from a seed and any number of keys.
func NewRng(seed uint64, keys ...uint64) *Rng {
	s := mix(seed ^ 0x5851f42d4c957f2d)
	for _, k := range keys {
		s = mix(s ^ mix(k))
	}
	return &Rng{s: s}
}

// StrKey turns a string into a key for NewRng.
func StrKey(s string) uint64 {
	h := sha256.Sum256([]byte(s))
	return binary.LittleEndian.Uint64(h[:8])
}

func (r *Rng) U64() uint64 {
	r.s += 0x9e3779b97f4a7c15
	z := r.s
	z = (z ^ (z >> 30)) * 0xbf58476d1ce4e5b9
	z = (z ^ (z >> 27)) * 0x94d049bb133111eb
	return z ^ (z >> 31)
}

func (r *Rng) Intn(n int) int {
	if n <= 0 {
		return 0
	}
	return int(r.U64() % uint64(n))
}

// Range returns a value in [lo, hi].
func (r *Rng) Range(lo, hi int) int { return lo + r.Intn(hi-lo+1) }
func (r *Rng) Bool() bool           { return r.U64()&1 == 1 }
func (r *Rng) Chance(pct int) bool  { return r.Intn(100) < pct }
func Pick[T any](r *Rng, xs []T) T  { return xs[r.Intn(len(xs))] }
func Shuffle[T any](r *Rng, xs []T) {
	for i := len(xs) - 1; i > 0; i-- {
		j := r.Intn(i + 1)
		xs[i], xs[j] = xs[j], xs[i]
	}
}

// Hash64 is the hash used for distinct-counting.
func Hash64(parts ...string) uint64 {
	h := sha256.New()
	for _, p := range parts {
		h.Write([]byte(p))
		h.Write([]byte{0})
	}
	return binary.LittleEndian.Uint64(h.Sum(nil)[:8])
}

func ShaHex(b []byte) string {
	h := sha256.Sum256(b)
	return hex.EncodeToString(h[:])
}

// ---------------------------------------------------------------------------
// Context

type Ctx struct {
	Prop      string
	Tier      string // quick | thorough
	Seed      uint64
	VerifDir  string
	Scratch   string // per-invocation scratch directory (removed by ./check on exit)
	Bin       string // directory holding vcheck, vcheck-fast, spok-race, spok-plain
	Worker    bool
	Shard     int
	NShards   int
	Sub       string // engine specific sub-mode for workers
	ReplayArg string
	NCPU      int
	start     time.Time
}

func (c *Ctx) Thorough() bool     { return c.Tier == "thorough" }
func (c *Ctx) SpokRace() string   { return filepath.Join(c.Bin, "spok-race") }
func (c *Ctx) SpokPlain() string  { return filepath.Join(c.Bin, "spok-plain") }
func (c *Ctx) Vcheck() string     { return filepath.Join(c.Bin, "vcheck") }
func (c *Ctx) VcheckFast() string { return filepath.Join(c.Bin, "vcheck-fast") }
func (c *Ctx) Elapsed() float64   { return time.Since(c.start).Seconds() }
func (c *Ctx) Rng(keys ...uint64) *Rng {
	return NewRng(c.Seed, append([]uint64{StrKey(c.Prop)}, keys...)...)
}

// Q picks the quick or thorough value.
func (c *Ctx) Q(quick, thorough int) int {
	if c.Thorough() {
		return thorough
	}
	return quick
}

func NewCtx() *Ctx {
	c := &Ctx{start: time.Now(), Tier: "quick", Seed: 1, NCPU: 16}
	if s := os.Getenv("VERIF_SEED"); s != "" {
		if v, err := strconv.ParseUint(s, 10, 64); err == nil {
			c.Seed = v
		} else if v, err := strconv.ParseInt(s, 10, 64); err == nil {
			c.Seed = uint64(v)
		}
	}
	c.VerifDir = os.Getenv("VERIF_DIR")
	if c.VerifDir == "" {
		c.VerifDir = "/verif"
	}
	c.Scratch = os.Getenv("VERIF_SCRATCH")
	c.Bin = os.Getenv("VERIF_BIN")
	if n, err := strconv.Atoi(os.Getenv("VERIF_NCPU")); err == nil && n > 0 {
		c.NCPU = n
	}
	return c
}

// OutDir is where evidence and replay files go: /verif, unless VERIF_OUT redirects them (runs
// against scratch copies of the repository must not overwrite the evidence of the real tree).
func (c *Ctx) OutDir() string {
	if d := os.Getenv("VERIF_OUT"); d != "" {
		return d
	}
	return c.VerifDir
}

// TempDir makes a fresh directory under the scratch area.
func (c *Ctx) TempDir(prefix string) string {
	d, err := os.MkdirTemp(c.Scratch, prefix)
	if err != nil {
		Fatal("cannot create scratch directory: %v", err)
	}
	return d
}

// Fatal is a harness failure: exit 2, never a verdict.
func Fatal(format string, args ...any) {
	fmt.Fprintf(os.Stderr, "HARNESS-ERROR: "+format+"\n", args...)
	os.Exit(2)
}

// ---------------------------------------------------------------------------
// Violations

type Violation struct {
	Property string          `json:"property"`
	Clause   string          `json:"clause"`           // which oracle clause failed
	Key      string          `json:"key"`              // canonical witness key (matched against known findings)
	Detail   string          `json:"detail"`           // human readable
	Engine   string          `json:"engine,omitempty"` // sub-engine that can replay the case
	Case     json.RawMessage `json:"case"`             // the case, as the engine's replay understands it
	Events   any             `json:"events,omitempty"` // what the monitor observed
	Seed     uint64          `json:"seed"`
	Tier     string          `json:"tier"`
}

func JSON(v any) json.RawMessage {
	b, err := json.Marshal(v)
	if err != nil {
		b, _ = json.Marshal(fmt.Sprintf("%+v", v))
	}
	return b
}

type knownFile struct {
	Findings []struct {
		Property string `json:"property"`
		Clause   string `json:"clause"`
		Key      string `json:"key"`
		What     string `json:"what"`
	} `json:"findings"`
	Fixed []string `json:"fixed"`
}

var (
	repMu      sync.Mutex
	reported   = map[string]bool{}
	nViolation int
	nKnown     int
)

// Report prints the verdict line for one violation and writes its replay file.
// Only the orchestrator calls it.
func (c *Ctx) Report(v Violation) {
	repMu.Lock()
	defer repMu.Unlock()
	if v.Property == "" {
		v.Property = c.Prop
	}
	v.Seed, v.Tier = c.Seed, c.Tier
	id := v.Property + "|" + v.Clause + "|" + v.Key
	if reported[id] {
		return
	}
	reported[id] = true

	var kf knownFile
	if b, err := os.ReadFile(filepath.Join(c.VerifDir, "known_findings.json")); err == nil {
		_ = json.Unmarshal(b, &kf)
	}
	for _, f := range kf.Findings {
		if f.Property == v.Property && f.Clause == v.Clause && f.Key == v.Key {
			nKnown++
			fmt.Printf("KNOWN-FINDING: property=%s %s\n", v.Property, f.What)
			return
		}
	}
	nViolation++
	if nViolation > 25 {
		return // enough witnesses; the count is still kept
	}
	dir := filepath.Join(c.OutDir(), "replays")
	_ = os.MkdirAll(dir, 0o755)
	name := fmt.Sprintf("%s-%s-%016x.json", v.Property, sanitize(v.Clause), Hash64(id))
	path := filepath.Join(dir, name)
	b, _ := json.MarshalIndent(v, "", " ")
	_ = os.WriteFile(path, b, 0o644)
	fmt.Printf("VIOLATION property=%s replay=%s\n", v.Property, path)
	fmt.Printf("  clause=%s detail=%s\n", v.Clause, trunc(v.Detail, 600))
}

func (c *Ctx) Violations() int { repMu.Lock(); defer repMu.Unlock(); return nViolation }

func sanitize(s string) string {
	var b strings.Builder
	for _, r := range s {
		if (r >= 'a' && r <= 'z') || (r >= 'A' && r <= 'Z') || (r >= '0' && r <= '9') || r == '-' || r == '_' {
			b.WriteRune(r)
		} else {
			b.WriteByte('_')
		}
	}
	return b.String()
}

func trunc(s string, n int) string {
	if len(s) > n {
		return s[:n] + "…"
	}
	return s
}

// Trunc shortens a string for messages and samples.
func Trunc(s string, n int) string { return trunc(s, n) }

// ---------------------------------------------------------------------------
// Evidence

type Evidence struct {
	PropertyID  string         `json:"property_id"`
	Tier        string         `json:"tier"`
	Seed        int64          `json:"seed"`
	Level       string         `json:"level"`
	Coverage    map[string]any `json:"coverage"`
	Assumptions []string       `json:"assumptions"`
	WallS       float64        `json:"wall_s"`
	Violations  int            `json:"violations"`
}

func (c *Ctx) WriteEvidence(level string, coverage map[string]any, assumptions []string) {
	ev := Evidence{
		PropertyID: c.Prop, Tier: c.Tier, Seed: int64(c.Seed), Level: level,
		Coverage: coverage, Assumptions: assumptions, WallS: c.Elapsed(), Violations: c.Violations(),
	}
	if nKnown > 0 {
		coverage["known_findings_seen"] = nKnown
	}
	b, err := json.MarshalIndent(ev, "", " ")
	if err != nil {
		Fatal("evidence: %v", err)
	}
	dir := filepath.Join(c.OutDir(), "evidence")
	_ = os.MkdirAll(dir, 0o755)
	if err := os.WriteFile(filepath.Join(dir, c.Prop+".json"), append(b, '\n'), 0o644); err != nil {
		Fatal("evidence: %v", err)
	}
}

// ---------------------------------------------------------------------------
// Shard results

type ShardResult struct {
	Evaluations  int64               `json:"evaluations"`
	Nontrivial   int64               `json:"nontrivial"` // counted directly (cases disjoint by construction)
	Hashes       []uint64            `json:"-"`          // distinct non-trivial cases by hash (side file; unioned over shards)
	Counters     map[string]int64    `json:"counters"`
	Sets         map[string][]string `json:"sets"` // small sets of distinct observations, unioned
	Samples      []json.RawMessage   `json:"samples"`
	Violations   []Violation         `json:"violations"`
	Inconclusive int64               `json:"inconclusive"`
	Done         bool                `json:"done"`

	// CountOnly switches Distinct from hashing to counting (bulk enumerations whose
	// cases are distinct by construction); not part of the result
	CountOnly string `json:"-"`

	hashSet map[uint64]struct{}
	setSets map[string]map[string]struct{}
}

func NewShardResult() *ShardResult {
	return &ShardResult{Counters: map[string]int64{}, Sets: map[string][]string{},
		hashSet: map[uint64]struct{}{}, setSets: map[string]map[string]struct{}{}}
}

func (s *ShardResult) Count(name string, n int64) { s.Counters[name] += n }

// Distinct records a non-trivial case by hash. When CountOnly is set the case is known
// to be distinct by construction and only counted ("-" = known duplicate: not counted).
func (s *ShardResult) Distinct(h uint64) {
	if s.CountOnly == "-" {
		return
	}
	if s.CountOnly != "" {
		s.Counters[s.CountOnly]++
		return
	}
	if s.hashSet == nil {
		s.hashSet = map[uint64]struct{}{}
	}
	s.hashSet[h] = struct{}{}
}

// Seen adds a value to a named small set (capped so evidence stays readable).
func (s *ShardResult) Seen(set, value string) {
	if s.setSets == nil {
		s.setSets = map[string]map[string]struct{}{}
	}
	m := s.setSets[set]
	if m == nil {
		m = map[string]struct{}{}
		s.setSets[set] = m
	}
	if len(m) < 5000 {
		m[value] = struct{}{}
	}
}

func (s *ShardResult) Sample(v any, max int) {
	if len(s.Samples) < max {
		s.Samples = append(s.Samples, JSON(v))
	}
}

func (s *ShardResult) Violate(v Violation) {
	if len(s.Violations) < 50 {
		s.Violations = append(s.Violations, v)
	} else {
		s.Count("violations_dropped", 1)
	}
	s.Count("violations_total", 1)
}

func (s *ShardResult) Seal() {
	for h := range s.hashSet {
		s.Hashes = append(s.Hashes, h)
	}
	sort.Slice(s.Hashes, func(i, j int) bool { return s.Hashes[i] < s.Hashes[j] })
	for k, m := range s.setSets {
		var xs []string
		for v := range m {
			xs = append(xs, v)
		}
		sort.Strings(xs)
		s.Sets[k] = xs
	}
	s.Done = true
}

// Merge folds o into s.
func (s *ShardResult) Merge(o *ShardResult) {
	s.Evaluations += o.Evaluations
	s.Nontrivial += o.Nontrivial
	s.Inconclusive += o.Inconclusive
	s.Hashes = append(s.Hashes, o.Hashes...)
	for h := range o.hashSet {
		s.Hashes = append(s.Hashes, h)
	}
	for k, v := range o.Counters {
		if strings.HasPrefix(k, "max_") {
			if v > s.Counters[k] {
				s.Counters[k] = v
			}
			continue
		}
		s.Counters[k] += v
	}
	for k, vs := range o.Sets {
		for _, v := range vs {
			s.Seen(k, v)
		}
	}
	for k, m := range o.setSets {
		for v := range m {
			s.Seen(k, v)
		}
	}
	for _, x := range o.Samples {
		if len(s.Samples) < 12 {
			s.Samples = append(s.Samples, x)
		}
	}
	s.Violations = append(s.Violations, o.Violations...)
}

// DistinctCount is the number of distinct non-trivial cases seen: those counted
// directly (disjoint by construction) plus the distinct hashes.
func (s *ShardResult) DistinctCount() int64 {
	all := append([]uint64{}, s.Hashes...)
	for h := range s.hashSet {
		all = append(all, h)
	}
	sort.Slice(all, func(i, j int) bool { return all[i] < all[j] })
	n := int64(0)
	for i, h := range all {
		if i == 0 || h != all[i-1] {
			n++
		}
	}
	return s.Nontrivial + n
}

// SetSizes reports the size of every named set.
func (s *ShardResult) SetSizes() map[string]int {
	out := map[string]int{}
	for k, m := range s.setSets {
		out[k] = len(m)
	}
	return out
}

// SetValues returns the sorted values of a named set.
func (s *ShardResult) SetValues(name string) []string {
	var xs []string
	for v := range s.setSets[name] {
		xs = append(xs, v)
	}
	sort.Strings(xs)
	return xs
}
