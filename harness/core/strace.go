package core

import (
	"bufio"
	"os"
	"path/filepath"
	"regexp"
	"strconv"
	"strings"
)

// FsEvent is one successful path-mutating system call of a traced invocation.
type FsEvent struct {
	PID     int    `json:"pid"`
	Syscall string `json:"syscall"`
	Kind    string `json:"kind"`  // remove | write | create-dir | chmod | rename-from | rename-to
	Path    string `json:"path"`  // absolute, cleaned
	Child   bool   `json:"child"` // issued by a process that spok exec'ed, not by spok itself
	Raw     string `json:"raw"`
}

const straceSyscalls = "unlink,unlinkat,rmdir,rename,renameat,renameat2,open,openat,creat,truncate,ftruncate,chmod,fchmod,fchmodat,mkdir,mkdirat,symlink,symlinkat,link,linkat,chdir,execve"

// StracePrefix is the command prefix that traces an invocation into outFile.
func StracePrefix(outFile string) []string {
	return []string{"strace", "-f", "-y", "-qq", "-s", "4096", "-o", outFile, "-e", "trace=" + straceSyscalls}
}

var (
	reLine    = regexp.MustCompile(`^(\d+)\s+(.*)$`)
	reCall    = regexp.MustCompile(`^([a-z0-9_]+)\((.*)\)\s+=\s+(-?\d+|\?)(.*)$`)
	reResumed = regexp.MustCompile(`^<\.\.\. ([a-z0-9_]+) resumed>(.*)$`)
	reStr     = regexp.MustCompile(`"((?:[^"\\]|\\.)*)"`)
	reFd      = regexp.MustCompile(`^(AT_FDCWD|\d+)<([^>]*)>`)
)

func unescape(s string) string {
	if !strings.Contains(s, `\`) {
		return s
	}
	if u, err := strconv.Unquote(`"` + s + `"`); err == nil {
		return u
	}
	return s
}

// ParseStrace turns a trace file into the list of successful mutating calls.
// cwd is the working directory the traced process started in.
func ParseStrace(file, cwd string) ([]FsEvent, error) {
	f, err := os.Open(file)
	if err != nil {
		return nil, err
	}
	defer f.Close()
	sc := bufio.NewScanner(f)
	sc.Buffer(make([]byte, 1<<20), 64<<20)
	pending := map[int]string{}
	execed := map[int]int{} // pid -> number of execve calls seen
	cwds := map[int]string{}
	firstPID := 0
	var events []FsEvent
	for sc.Scan() {
		m := reLine.FindStringSubmatch(sc.Text())
		if m == nil {
			continue
		}
		pid, _ := strconv.Atoi(m[1])
		if firstPID == 0 {
			firstPID = pid
		}
		rest := m[2]
		if strings.HasSuffix(rest, "<unfinished ...>") {
			pending[pid] = strings.TrimSuffix(rest, "<unfinished ...>")
			continue
		}
		if r := reResumed.FindStringSubmatch(rest); r != nil {
			rest = pending[pid] + r[2]
			delete(pending, pid)
		}
		c := reCall.FindStringSubmatch(rest)
		if c == nil {
			continue
		}
		name, args, ret := c[1], c[2], c[3]
		if ret == "?" || strings.HasPrefix(ret, "-") {
			continue
		}
		if name == "execve" {
			execed[pid]++
			continue
		}
		base := cwd
		if d, ok := cwds[pid]; ok {
			base = d
		}
		abs := func(dir, p string) string {
			if filepath.IsAbs(p) {
				return filepath.Clean(p)
			}
			return filepath.Clean(filepath.Join(dir, p))
		}
		strs := reStr.FindAllStringSubmatch(args, -1)
		str := func(i int) string {
			if i < len(strs) {
				return unescape(strs[i][1])
			}
			return ""
		}
		dirOf := func(arg string) string {
			if fm := reFd.FindStringSubmatch(strings.TrimSpace(arg)); fm != nil {
				return fm[2]
			}
			return base
		}
		// split top-level args roughly: dirfd is always the text before the first comma
		firstArg := args
		if i := strings.Index(args, ","); i >= 0 {
			firstArg = args[:i]
		}
		child := pid != firstPID && execed[pid] > 0
		add := func(kind, p string) {
			if (strings.HasPrefix(p, "/dev/") && !strings.HasPrefix(p, "/dev/shm/")) || strings.HasPrefix(p, "/proc/") || strings.HasPrefix(p, "/sys/") {
				return
			}
			events = append(events, FsEvent{PID: pid, Syscall: name, Kind: kind, Path: p, Child: child, Raw: rest})
		}
		writeFlags := func() bool {
			return strings.Contains(args, "O_WRONLY") || strings.Contains(args, "O_RDWR") || strings.Contains(args, "O_CREAT") || strings.Contains(args, "O_TRUNC") || strings.Contains(args, "O_APPEND")
		}
		switch name {
		case "chdir":
			cwds[pid] = abs(base, str(0))
		case "unlink", "rmdir":
			add("remove", abs(base, str(0)))
		case "unlinkat":
			add("remove", abs(dirOf(firstArg), str(0)))
		case "rename":
			add("rename-from", abs(base, str(0)))
			add("rename-to", abs(base, str(1)))
		case "renameat", "renameat2":
			// renameat(olddirfd, "old", newdirfd, "new")
			parts := strings.SplitN(args, ",", 4)
			od, nd := base, base
			if len(parts) >= 3 {
				od, nd = dirOf(parts[0]), dirOf(parts[2])
			}
			add("rename-from", abs(od, str(0)))
			add("rename-to", abs(nd, str(1)))
		case "open", "creat":
			if name == "creat" || writeFlags() {
				add("write", abs(base, str(0)))
			}
		case "openat":
			if writeFlags() {
				add("write", abs(dirOf(firstArg), str(0)))
			}
		case "truncate":
			add("write", abs(base, str(0)))
		case "ftruncate", "fchmod":
			if fm := reFd.FindStringSubmatch(strings.TrimSpace(firstArg)); fm != nil {
				kind := "write"
				if name == "fchmod" {
					kind = "chmod"
				}
				add(kind, filepath.Clean(fm[2]))
			}
		case "chmod":
			add("chmod", abs(base, str(0)))
		case "fchmodat":
			add("chmod", abs(dirOf(firstArg), str(0)))
		case "mkdir":
			add("create-dir", abs(base, str(0)))
		case "mkdirat":
			add("create-dir", abs(dirOf(firstArg), str(0)))
		case "symlink":
			add("write", abs(base, str(1)))
		case "symlinkat":
			parts := strings.SplitN(args, ",", 3)
			d := base
			if len(parts) >= 2 {
				d = dirOf(parts[1])
			}
			add("write", abs(d, str(1)))
		case "link":
			add("write", abs(base, str(1)))
		case "linkat":
			parts := strings.SplitN(args, ",", 5)
			d := base
			if len(parts) >= 3 {
				d = dirOf(parts[2])
			}
			add("write", abs(d, str(1)))
		}
	}
	return events, sc.Err()
}
