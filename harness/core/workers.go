package core

import (
	"bufio"
	"bytes"
	"encoding/binary"
	"encoding/json"
	"fmt"
	"os"
	"os/exec"
	"path/filepath"
	"strconv"
	"strings"
	"sync"
	"sync/atomic"
	"syscall"
	"time"
)

// A shard's work is a sequence of independent blocks (own RNG stream each);
// a block is a sequence of cases. Workers log "BLK b" when a block starts and,
// in careful mode, "BEGIN b i <json>" before each case touches the code under
// test (one unbuffered write(2): it survives the death of the process).

// WLog is the worker side of the progress protocol.
type WLog struct {
	f       *os.File
	Careful bool
	Skip    map[string]bool // "b:i" cases to skip (they killed a previous worker)
	Start   int             // first block to run
}

func OpenWLog() *WLog {
	w := &WLog{Skip: map[string]bool{}}
	if p := os.Getenv("VERIF_WLOG"); p != "" {
		f, err := os.OpenFile(p, os.O_APPEND|os.O_CREATE|os.O_WRONLY, 0o644)
		if err != nil {
			Fatal("worker log: %v", err)
		}
		w.f = f
	}
	w.Careful = os.Getenv("VERIF_CAREFUL") == "1"
	w.Start, _ = strconv.Atoi(os.Getenv("VERIF_START_BLOCK"))
	for _, s := range strings.Split(os.Getenv("VERIF_SKIP"), ",") {
		if s != "" {
			w.Skip[s] = true
		}
	}
	return w
}

func (w *WLog) Block(b int) {
	if w.f != nil {
		w.f.WriteString("BLK " + strconv.Itoa(b) + "\n") //nolint: errcheck
	}
}

// Tick records progress without announcing a case (long-running blocks).
func (w *WLog) Tick() {
	if w.f != nil {
		w.f.WriteString("TICK\n") //nolint: errcheck
	}
}

// Begin announces case i of block b. It returns false if the case must be skipped.
// desc is only evaluated when the line is actually written.
func (w *WLog) Begin(b, i int, desc func() any) bool {
	if len(w.Skip) != 0 && w.Skip[strconv.Itoa(b)+":"+strconv.Itoa(i)] {
		return false
	}
	if w.Careful && w.f != nil {
		line := "BEGIN " + strconv.Itoa(b) + " " + strconv.Itoa(i) + " " + string(JSON(desc())) + "\n"
		w.f.WriteString(line) //nolint: errcheck
	}
	return true
}

// Always announces a case regardless of careful mode (for expensive cases).
func (w *WLog) Always(b, i int, desc func() any) bool {
	if len(w.Skip) != 0 && w.Skip[strconv.Itoa(b)+":"+strconv.Itoa(i)] {
		return false
	}
	if w.f != nil {
		line := "BEGIN " + strconv.Itoa(b) + " " + strconv.Itoa(i) + " " + string(JSON(desc())) + "\n"
		w.f.WriteString(line) //nolint: errcheck
	}
	return true
}

// WriteResult stores the shard result where the orchestrator expects it.
func WriteResult(res *ShardResult) {
	res.Seal()
	p := os.Getenv("VERIF_WOUT")
	if p == "" {
		return
	}
	hb := make([]byte, 8*len(res.Hashes))
	for i, h := range res.Hashes {
		binary.LittleEndian.PutUint64(hb[8*i:], h)
	}
	if err := os.WriteFile(p+".h", hb, 0o644); err != nil {
		Fatal("worker result: %v", err)
	}
	b, err := json.Marshal(res)
	if err != nil {
		Fatal("worker result: %v", err)
	}
	if err := os.WriteFile(p+".tmp", b, 0o644); err != nil {
		Fatal("worker result: %v", err)
	}
	if err := os.Rename(p+".tmp", p); err != nil {
		Fatal("worker result: %v", err)
	}
}

// ---------------------------------------------------------------------------
// Orchestrator side

type WorkerSpec struct {
	Binary      string   // path of the worker binary (vcheck or vcheck-fast)
	Sub         string   // engine sub-mode
	NShards     int      // number of shards (each a process)
	Parallel    int      // how many at once (default NCPU)
	Env         []string // extra environment
	Taskset     string   // optional cpu list
	MemKB       int      // ulimit -v in KB (0 = none)
	AlwaysLogs  bool     // cases are always logged (expensive cases): no careful re-run needed
	WallLimit   time.Duration
	StallCPU    float64 // CPU-seconds without progress that mean non-termination (default 45)
	PerShardEnv func(shard int) []string
	callID      int64
}

var workerCalls atomic.Int64

// Death describes a worker that did not finish.
type Death struct {
	Shard      int             `json:"shard"`
	Kind       string          `json:"kind"` // crash | race | spin | deadlock | watchdog | unknown
	Exit       int             `json:"exit"`
	Signal     string          `json:"signal,omitempty"`
	Block      int             `json:"block"`
	Index      int             `json:"index"`
	Located    bool            `json:"located"` // whether the case was identified
	Case       json.RawMessage `json:"case,omitempty"`
	StderrTail string          `json:"stderr_tail,omitempty"`
	RaceLog    string          `json:"race_log,omitempty"`
}

type runOutcome struct {
	res    *ShardResult
	death  *Death
	stderr string
}

// RunWorkers runs all shards of a spec, restarting after deaths, and returns the
// merged result together with every death that was seen.
func (c *Ctx) RunWorkers(spec WorkerSpec) (*ShardResult, []Death) {
	if spec.Parallel <= 0 {
		spec.Parallel = c.NCPU
	}
	spec.callID = workerCalls.Add(1)
	if spec.StallCPU == 0 {
		spec.StallCPU = 45
	}
	if spec.WallLimit == 0 {
		spec.WallLimit = 30 * time.Minute
		if c.Thorough() {
			spec.WallLimit = 3 * time.Hour
		}
	}
	merged := NewShardResult()
	var deaths []Death
	var mu sync.Mutex
	sem := make(chan struct{}, spec.Parallel)
	var wg sync.WaitGroup
	for sh := 0; sh < spec.NShards; sh++ {
		wg.Add(1)
		sem <- struct{}{}
		go func(sh int) {
			defer wg.Done()
			defer func() { <-sem }()
			res, ds := c.runShard(spec, sh)
			mu.Lock()
			merged.Merge(res)
			deaths = append(deaths, ds...)
			mu.Unlock()
		}(sh)
	}
	wg.Wait()
	return merged, deaths
}

func (c *Ctx) runShard(spec WorkerSpec, sh int) (*ShardResult, []Death) {
	total := NewShardResult()
	out := c.runWorkerOnce(spec, sh, 0, 0, spec.AlwaysLogs, nil)
	if out.death == nil {
		total.Merge(out.res)
		return total, nil
	}
	// A death ends the shard: whatever the property, the run cannot end in "held".
	// What is left to do is to pin the death to a case.
	d := out.death
	total.Count("shards_abandoned", 1)
	if !d.Located && !spec.AlwaysLogs {
		// re-run from the block it died in with per-case logging
		again := c.runWorkerOnce(spec, sh, 1, d.Block, true, nil)
		if again.death != nil {
			if again.death.Located || !d.Located {
				d = again.death
			}
		} else {
			d.Kind += " (not reproduced by a careful re-run)"
		}
	}
	return total, []Death{*d}
}

func (c *Ctx) runWorkerOnce(spec WorkerSpec, sh, attempt, startBlock int, careful bool, skip []string) runOutcome {
	dir := filepath.Join(c.Scratch, "w", fmt.Sprintf("%s.%d", spec.Sub, spec.callID))
	_ = os.MkdirAll(dir, 0o755)
	base := filepath.Join(dir, fmt.Sprintf("s%03d.a%d", sh, attempt))
	wlog, wout, werr := base+".log", base+".json", base+".err"
	raceBase := base + ".race"

	args := []string{"--worker", "--prop", c.Prop, "--tier", c.Tier, "--sub", spec.Sub,
		"--shard", fmt.Sprintf("%d/%d", sh, spec.NShards)}
	var cmd *exec.Cmd
	bin := spec.Binary
	if bin == "" {
		bin = c.Vcheck()
	}
	shell := ""
	if spec.MemKB > 0 {
		shell += fmt.Sprintf("ulimit -v %d; ", spec.MemKB)
	}
	if spec.Taskset != "" {
		shell += "exec taskset -c " + spec.Taskset + " \"$0\" \"$@\""
	} else {
		shell += "exec \"$0\" \"$@\""
	}
	cmd = exec.Command("/bin/sh", append([]string{"-c", shell, bin}, args...)...)
	env := os.Environ()
	env = append(env,
		"VERIF_WLOG="+wlog, "VERIF_WOUT="+wout,
		"VERIF_START_BLOCK="+strconv.Itoa(startBlock),
		"VERIF_SKIP="+strings.Join(skip, ","),
		fmt.Sprintf("VERIF_SEED=%d", c.Seed),
		"GORACE=halt_on_error=1 exitcode=66 atexit_sleep_ms=0 log_path="+raceBase,
		"GOTRACEBACK=all",
	)
	if careful {
		env = append(env, "VERIF_CAREFUL=1")
	} else {
		env = append(env, "VERIF_CAREFUL=0")
	}
	env = append(env, spec.Env...)
	if spec.PerShardEnv != nil {
		env = append(env, spec.PerShardEnv(sh)...)
	}
	cmd.Env = env
	errf, _ := os.Create(werr)
	cmd.Stdout = errf
	cmd.Stderr = errf
	cmd.SysProcAttr = &syscall.SysProcAttr{Setpgid: true}
	if err := cmd.Start(); err != nil {
		Fatal("cannot start worker: %v", err)
	}
	done := make(chan error, 1)
	go func() { done <- cmd.Wait() }()

	kind := ""
	lastSize := int64(-1)
	lastCPU := 0.0
	lastWall := time.Now()
	begin := time.Now()
	tick := time.NewTicker(500 * time.Millisecond)
	defer tick.Stop()
	var waitErr error
loop:
	for {
		select {
		case waitErr = <-done:
			break loop
		case <-tick.C:
			var size int64
			if st, err := os.Stat(wlog); err == nil {
				size = st.Size()
			}
			cpu := procCPU(cmd.Process.Pid)
			if size != lastSize {
				lastSize, lastCPU, lastWall = size, cpu, time.Now()
				continue
			}
			switch {
			case cpu-lastCPU >= spec.StallCPU:
				kind = "spin"
			case time.Since(lastWall) > 90*time.Second && cpu-lastCPU < 1.0:
				kind = "deadlock?"
			case time.Since(begin) > spec.WallLimit:
				kind = "watchdog"
			}
			if kind != "" {
				_ = syscall.Kill(cmd.Process.Pid, syscall.SIGQUIT) // goroutine dump to stderr
				select {
				case waitErr = <-done:
				case <-time.After(10 * time.Second):
					_ = syscall.Kill(-cmd.Process.Pid, syscall.SIGKILL)
					waitErr = <-done
				}
				break loop
			}
		}
	}
	errf.Close()

	// finished properly?
	if kind == "" && waitErr == nil {
		if b, err := os.ReadFile(wout); err == nil {
			res := NewShardResult()
			if json.Unmarshal(b, res) == nil && res.Done {
				if res.Counters == nil {
					res.Counters = map[string]int64{}
				}
				if res.Sets == nil {
					res.Sets = map[string][]string{}
				}
				if hb, err := os.ReadFile(wout + ".h"); err == nil {
					for i := 0; i+8 <= len(hb); i += 8 {
						res.Hashes = append(res.Hashes, binary.LittleEndian.Uint64(hb[i:]))
					}
					_ = os.Remove(wout + ".h")
				}
				_ = os.Remove(wout)
				_ = os.Remove(wlog)
				_ = os.Remove(werr)
				return runOutcome{res: res}
			}
		}
	}

	d := &Death{Shard: sh, Kind: kind, Block: startBlock}
	if kind == "" {
		d.Kind = "crash"
	}
	if ee, ok := waitErr.(*exec.ExitError); ok {
		d.Exit = ee.ExitCode()
		if ws, ok := ee.Sys().(syscall.WaitStatus); ok && ws.Signaled() && kind == "" {
			d.Signal = ws.Signal().String()
		}
		if d.Exit == 66 {
			d.Kind = "sanitizer-failure" // refined to "race" below if the log holds a race report
		}
	}
	stderr, _ := os.ReadFile(werr)
	if kind == "deadlock?" {
		d.Kind = "unknown"
		if bytes.Contains(stderr, []byte("chan receive")) || bytes.Contains(stderr, []byte("chan send")) {
			d.Kind = "deadlock"
		}
	}
	if bytes.Contains(stderr, []byte("all goroutines are asleep - deadlock!")) {
		d.Kind = "deadlock"
	}
	d.StderrTail = tail(string(stderr), 6000)
	if files, _ := filepath.Glob(raceBase + "*"); len(files) > 0 {
		b, _ := os.ReadFile(files[0])
		d.RaceLog = tail(string(b), 8000)
		if bytes.Contains(b, []byte("DATA RACE")) {
			d.Kind = "race"
		}
	}
	// locate the case from the log
	if f, err := os.Open(wlog); err == nil {
		sc := bufio.NewScanner(f)
		sc.Buffer(make([]byte, 1<<20), 64<<20)
		for sc.Scan() {
			line := sc.Text()
			switch {
			case strings.HasPrefix(line, "BLK "):
				d.Block, _ = strconv.Atoi(line[4:])
				d.Located = false
			case strings.HasPrefix(line, "BEGIN "):
				parts := strings.SplitN(line, " ", 4)
				if len(parts) == 4 {
					d.Block, _ = strconv.Atoi(parts[1])
					d.Index, _ = strconv.Atoi(parts[2])
					d.Case = json.RawMessage(parts[3])
					d.Located = true
				}
			}
		}
		f.Close()
	}
	// keep partial results of a worker that died? No: results are written only at the end,
	// the restarted worker recomputes from the block where this one died.
	return runOutcome{death: d, stderr: string(stderr)}
}

func tail(s string, n int) string {
	if len(s) > n {
		return "…" + s[len(s)-n:]
	}
	return s
}

// procCPU returns user+system CPU seconds consumed by a process and its threads.
func procCPU(pid int) float64 {
	b, err := os.ReadFile(fmt.Sprintf("/proc/%d/stat", pid))
	if err != nil {
		return 0
	}
	// fields after the ")" of comm
	i := bytes.LastIndexByte(b, ')')
	if i < 0 {
		return 0
	}
	f := strings.Fields(string(b[i+1:]))
	if len(f) < 14 {
		return 0
	}
	ut, _ := strconv.ParseFloat(f[11], 64)
	st, _ := strconv.ParseFloat(f[12], 64)
	return (ut + st) / 100.0
}

// ProcCPU is exported for engines that supervise their own children.
func ProcCPU(pid int) float64 { return procCPU(pid) }
