package core

import (
	"bytes"
	"context"
	"os"
	"os/exec"
	"path/filepath"
	"sort"
	"strings"
	"syscall"
	"time"
)

// Invocation is one observed run of the spok binary.
type Invocation struct {
	Args     []string `json:"args"`
	Dir      string   `json:"dir"`
	Exit     int      `json:"exit"`
	Signal   string   `json:"signal,omitempty"`
	Stdout   string   `json:"stdout"`
	Stderr   string   `json:"stderr"`
	TimedOut bool     `json:"timed_out,omitempty"`
	Race     bool     `json:"race_report,omitempty"`
	WallMS   int64    `json:"wall_ms"`
	CPUSec   float64  `json:"cpu_s"`
}

// SpokOpts configures RunSpok.
type SpokOpts struct {
	Bin     string
	Dir     string   // cwd
	Home    string   // $HOME (the stop directory of spokfile discovery)
	Env     []string // extra environment (KEY=VALUE), overrides the base
	Args    []string
	Prefix  []string // command prefix, e.g. strace ...
	Timeout time.Duration
}

// BaseEnv is the small, fixed environment every spok invocation gets.
func BaseEnv(home string) []string {
	return []string{
		"PATH=/usr/local/sbin:/usr/local/bin:/usr/sbin:/usr/bin:/sbin:/bin",
		"HOME=" + home,
		"LANG=C",
		"NO_COLOR=1",
		"TERM=dumb",
		"GORACE=halt_on_error=1 exitcode=66 atexit_sleep_ms=0",
		"GOTRACEBACK=all",
	}
}

// HostileEnv returns ambient variables that a tool might be tempted to give a meaning to:
// variant 1 = switch-looking SPOK_* variables set to false values, 2 = the variables CI systems
// set (plus colour forcing), 3 = both plus relocated XDG directories below home. 0 = none.
func HostileEnv(variant int, home string) []string {
	sw := []string{"SPOK_FORCE=0", "SPOK_QUIET=0", "SPOK_JSON=0", "SPOK_DEBUG=false", "SPOK_CLEAN=0", "SPOK_FMT=false", "SPOK_JOBS=0", "SPOKFILE="}
	ci := []string{"CI=true", "GITHUB_ACTIONS=true", "GITLAB_CI=true", "FORCE_COLOR=1", "CLICOLOR_FORCE=1", "DEBUG=1", "VERBOSE=1"}
	switch variant % 4 {
	case 1:
		return sw
	case 2:
		return ci
	case 3:
		out := append(append([]string{}, sw...), ci...)
		return append(out, "XDG_CACHE_HOME="+home+"/.xdg-cache", "XDG_CONFIG_HOME="+home+"/.xdg-config", "TMPDIR="+home+"/.tmp")
	}
	return nil
}

// RunSpok executes the binary and records what can be seen from outside.
func RunSpok(o SpokOpts) Invocation {
	if o.Timeout == 0 {
		o.Timeout = 120 * time.Second
	}
	ctx, cancel := context.WithTimeout(context.Background(), o.Timeout)
	defer cancel()
	argv := append(append([]string{}, o.Prefix...), o.Bin)
	argv = append(argv, o.Args...)
	cmd := exec.CommandContext(ctx, argv[0], argv[1:]...)
	cmd.Dir = o.Dir
	cmd.Env = append(BaseEnv(o.Home), o.Env...)
	var so, se bytes.Buffer
	cmd.Stdout, cmd.Stderr = &so, &se
	cmd.SysProcAttr = &syscall.SysProcAttr{Setpgid: true}
	cmd.Cancel = func() error { return syscall.Kill(-cmd.Process.Pid, syscall.SIGKILL) }
	start := time.Now()
	err := cmd.Run()
	inv := Invocation{Args: o.Args, Dir: o.Dir, Stdout: so.String(), Stderr: se.String(), WallMS: time.Since(start).Milliseconds()}
	if ctx.Err() != nil {
		inv.TimedOut = true
	}
	if cmd.ProcessState != nil {
		inv.CPUSec = (cmd.ProcessState.UserTime() + cmd.ProcessState.SystemTime()).Seconds()
	}
	if err != nil {
		if ee, ok := err.(*exec.ExitError); ok {
			inv.Exit = ee.ExitCode()
			if ws, ok := ee.Sys().(syscall.WaitStatus); ok && ws.Signaled() {
				inv.Signal = ws.Signal().String()
				inv.Exit = 128 + int(ws.Signal())
			}
		} else {
			inv.Exit = -1
			inv.Stderr += "\n[harness] " + err.Error()
		}
	}
	if inv.Exit == 66 || strings.Contains(inv.Stderr, "WARNING: DATA RACE") {
		inv.Race = true
	}
	return inv
}

// Crashed reports whether the invocation ended in a Go panic / fatal error / signal.
func (i Invocation) Crashed() bool {
	return i.Signal != "" || strings.Contains(i.Stderr, "goroutine 1 [") || strings.Contains(i.Stderr, "panic: ") || strings.Contains(i.Stderr, "fatal error: ")
}

// ---------------------------------------------------------------------------
// Tree snapshots

// Entry is one path of a snapshot.
type Entry struct {
	Type string `json:"type"` // file | dir | link | other
	Mode uint32 `json:"mode"`
	Sum  string `json:"sum,omitempty"` // sha256 of content (files), link target (links)
}

// Snapshot maps paths relative to root to what is there.
type Snapshot map[string]Entry

// Snap walks root completely.
func Snap(root string) Snapshot {
	s := Snapshot{}
	_ = filepath.Walk(root, func(path string, info os.FileInfo, err error) error {
		if err != nil {
			return nil
		}
		rel, _ := filepath.Rel(root, path)
		e := Entry{Mode: uint32(info.Mode().Perm())}
		switch {
		case info.Mode().IsRegular():
			e.Type = "file"
			if b, err := os.ReadFile(path); err == nil {
				e.Sum = ShaHex(b)
			}
		case info.IsDir():
			e.Type = "dir"
		case info.Mode()&os.ModeSymlink != 0:
			e.Type = "link"
			e.Sum, _ = os.Readlink(path)
		default:
			e.Type = "other"
		}
		s[rel] = e
		return nil
	})
	return s
}

// Diff lists what differs between two snapshots.
type Diff struct {
	Removed  []string `json:"removed"`
	Added    []string `json:"added"`
	Modified []string `json:"modified"`
}

func (d Diff) Empty() bool { return len(d.Removed)+len(d.Added)+len(d.Modified) == 0 }

func SnapDiff(before, after Snapshot) Diff {
	var d Diff
	for p, e := range before {
		a, ok := after[p]
		switch {
		case !ok:
			d.Removed = append(d.Removed, p)
		case a != e:
			d.Modified = append(d.Modified, p)
		}
	}
	for p := range after {
		if _, ok := before[p]; !ok {
			d.Added = append(d.Added, p)
		}
	}
	sort.Strings(d.Removed)
	sort.Strings(d.Added)
	sort.Strings(d.Modified)
	return d
}

// WriteFiles creates files (path relative to root -> content), making directories.
// A path ending in "/" is a directory.
func WriteFiles(root string, files map[string]string) error {
	for p, content := range files {
		full := filepath.Join(root, p)
		if strings.HasSuffix(p, "/") {
			if err := os.MkdirAll(full, 0o755); err != nil {
				return err
			}
			continue
		}
		if err := os.MkdirAll(filepath.Dir(full), 0o755); err != nil {
			return err
		}
		if err := os.WriteFile(full, []byte(content), 0o644); err != nil {
			return err
		}
	}
	return nil
}

// ParallelFor runs fn(i) for i in [0,n) on up to p goroutines.
func ParallelFor(n, p int, fn func(i int)) {
	if p < 1 {
		p = 1
	}
	ch := make(chan int)
	done := make(chan struct{})
	for w := 0; w < p; w++ {
		go func() {
			for i := range ch {
				fn(i)
			}
			done <- struct{}{}
		}()
	}
	for i := 0; i < n; i++ {
		ch <- i
	}
	close(ch)
	for w := 0; w < p; w++ {
		<-done
	}
}
