package props

// Parse-level engine: C06 C07 C08 C11 C15 C16.
// Every oracle runs the real lexer / parser / formatter in-process on generated,
// enumerated and mutated text and judges what came back.

import (
	"encoding/base64"
	"encoding/json"
	"fmt"
	"os"
	"path/filepath"
	"reflect"
	"strconv"
	"strings"
	"sync"
	"unicode"
	"unicode/utf8"

	"verif/harness/core"
	"verif/harness/gen"

	"github.com/FollowTheProcess/spok/ast"
	"github.com/FollowTheProcess/spok/file"
	"github.com/FollowTheProcess/spok/lexer"
	"github.com/FollowTheProcess/spok/parser"
	"github.com/FollowTheProcess/spok/token"
)

func init() {
	for _, id := range []string{"C06", "C07", "C08", "C11", "C15", "C16"} {
		register(id, &Engine{Run: parseRun, Worker: parseWorker, Replay: parseReplay})
	}
}

// ---------------------------------------------------------------------------
// Block plan

type pblock struct {
	Kind   string // classA classB prog layouts mut comment prefix raw
	N      int    // class string length / layouts per program
	Lo, Hi int64  // class index range
	Count  int    // cases to generate
	ID     int    // RNG key
	Fast   bool   // run on the non-race build (bulk enumeration only)
	Weight int64
}

const classBlock = 20000

func planBlocks(c *core.Ctx) []pblock {
	var bs []pblock
	id := 0
	add := func(b pblock) {
		b.ID = id
		id++
		bs = append(bs, b)
	}
	classes := func(maxRace, maxFast int) {
		for _, kind := range []string{"classA", "classB", "classC"} {
			alpha := gen.Alphabet(kind)
			mr, mf := maxRace, maxFast
			if kind == "classC" {
				mr, mf = maxRace+1, maxFast+1 // 14 symbols: one symbol deeper for the same cost
			}
			for n := 0; n <= mf; n++ {
				maxRace := mr
				total := gen.Pow(len(alpha), n)
				for lo := int64(0); lo < total; lo += classBlock {
					hi := lo + classBlock
					if hi > total {
						hi = total
					}
					add(pblock{Kind: kind, N: n, Lo: lo, Hi: hi, Fast: n > maxRace, Weight: hi - lo})
				}
			}
		}
	}
	gens := func(kind string, total, per, n int, w int64) {
		for done := 0; done < total; done += per {
			k := per
			if total-done < k {
				k = total - done
			}
			add(pblock{Kind: kind, Count: k, N: n, Weight: int64(k) * w})
		}
	}
	T := c.Thorough()
	switch c.Prop {
	case "C06":
		gens("prog", c.Q(20000, 300000), 500, c.Q(8, 16), 12)
		gens("layouts", c.Q(12, 40), 1, c.Q(4000, 30000), 6000)
	case "C07", "C11", "C15":
		if T {
			classes(5, 6)
		} else {
			classes(4, 4)
		}
		gens("prog", c.Q(10000, 150000), 500, 2, 6)
		gens("mut", c.Q(200000, 5000000), 4000, 0, 4)
		if c.Prop == "C15" {
			gens("comment", c.Q(50000, 2000000), 2000, 0, 4)
		} else {
			gens("comment", c.Q(10000, 200000), 2000, 0, 4)
		}
	case "C08":
		if T {
			classes(5, 6)
		} else {
			classes(4, 4)
		}
		gens("prog", c.Q(10000, 150000), 500, 2, 6)
		gens("mut", c.Q(200000, 5000000), 4000, 0, 4)
		gens("prefix", c.Q(1500, 30000), 100, 0, 600)
		gens("raw", c.Q(100000, 3000000), 5000, 0, 1)
		gens("long", c.Q(640, 6400), 80, 0, 4000)
		gens("concurrent", c.Q(24, 240), 1, 0, 4000)
	case "C16":
		if T {
			classes(5, 6)
		} else {
			classes(4, 4)
		}
		gens("prog", c.Q(5000, 60000), 250, 16, 20)
		gens("mut", c.Q(200000, 5000000), 4000, 0, 2)
		gens("raw", c.Q(50000, 1000000), 5000, 0, 1)
		gens("long", c.Q(320, 3200), 80, 0, 4000)
	}
	return bs
}

// shardPlan groups the blocks of one build flavour into shards of bounded weight
// (a worker process leaks one goroutine per failed parse, so it must not live long).
func shardPlan(bs []pblock, fast bool) [][]pblock {
	// (every live goroutine costs the race runtime >= 128 KiB of trace memory: about 6% of the inputs
	// leave their lexer goroutine behind, so a race-built worker handles at most ~100 000 inputs)
	limit := int64(100000)
	if fast {
		limit = 2500000
	}
	// enough shards to keep every CPU busy
	var totalW int64
	for _, b := range bs {
		if b.Fast == fast {
			totalW += b.Weight
		}
	}
	if per := totalW / 48; per < limit {
		limit = per
	}
	if limit < 20000 {
		limit = 20000
	}
	var out [][]pblock
	var cur []pblock
	var w int64
	for _, b := range bs {
		if b.Fast != fast {
			continue
		}
		if w+b.Weight > limit && len(cur) > 0 {
			out = append(out, cur)
			cur, w = nil, 0
		}
		cur = append(cur, b)
		w += b.Weight
	}
	if len(cur) > 0 {
		out = append(out, cur)
	}
	return out
}

// ---------------------------------------------------------------------------
// Orchestrator

var parseRules = map[string]string{
	"C06": "abstract spokfiles from the generator (0-6 statements, 0-4 deps/outs/args, 0-5 commands) each written in N random admissible layouts, plus every layout (bounded product of the layout decisions) of small structures; a case = one (structure, layout) text parsed by the real parser and compared with the structure; non-trivial = distinct structures with >=1 statement whose layouts all parsed",
	"C07": "every string over two 25-symbol class alphabets and one 14-symbol statement-level alphabet up to the tier's length (4/6 resp. 5/7 symbols), generated programs in 2 layouts, seeded mutants of the repository's spokfile/test inputs, comment-position programs; a case = one input run through parse -> format -> parse; non-trivial = distinct inputs (by hash) that parse to >=1 node and were therefore judged",
	"C08": "the inputs of C07 plus every byte-prefix of generated programs and raw byte strings with 30% bytes >= 0x80, and mutants stretched by one line or token of 4 KiB - 1 MiB (comment, blanks, identifier, string, multi-byte text); each input parsed twice in a child worker (race build; bulk enumeration on the plain build); batches of mutants are also parsed by 8 goroutines at once and compared with their sequential results; non-trivial = distinct inputs that produce a syntax error whose line/context were checked, or a tree",
	"C11": "same inputs as C07; a case = parse -> format -> parse -> format, compared byte for byte; non-trivial = distinct inputs that parse to >=1 node and whose formatted text re-parses",
	"C15": "same inputs as C07 plus a generator placing comments in every syntactic position; non-trivial = distinct inputs that parse and contain >=1 non-empty comment or docstring",
	"C16": "every string over the class alphabets up to the tier's length, generated programs in 16 layouts (LF/CRLF/mixed, tabs, multi-byte), mutants (also with a byte-order mark or other invisible characters in front), raw bytes, mutants stretched by one line or token of 4 KiB - 1 MiB; a case = one token stream read to its first EOF/ERROR and checked token by token against the input; non-trivial = distinct inputs that yield >=2 tokens",
}

func parseRun(c *core.Ctx) bool {
	blocks := planBlocks(c)
	total := core.NewShardResult()
	var deaths []core.Death
	for _, fast := range []bool{false, true} {
		plan := shardPlan(blocks, fast)
		if len(plan) == 0 {
			continue
		}
		spec := core.WorkerSpec{Sub: "parse", NShards: len(plan), MemKB: 24 << 20}
		if fast {
			spec.Sub = "parsefast"
			spec.Binary = c.VcheckFast()
		}
		res, ds := c.RunWorkers(spec)
		total.Merge(res)
		deaths = append(deaths, ds...)
	}
	if c.Thorough() && c.Prop == "C08" {
		// once more with a single P: the lexer goroutine and the parser then alternate strictly
		var sub []pblock
		for _, b := range blocks {
			if !b.Fast && (b.Kind == "prog" || b.Kind == "mut" || b.Kind == "prefix") && b.ID%4 == 0 {
				sub = append(sub, b)
			}
		}
		_ = sub
		spec := core.WorkerSpec{Sub: "parsep1", NShards: len(shardPlan(filterP1(blocks), false)), Env: []string{"GOMAXPROCS=1"}, MemKB: 24 << 20}
		if spec.NShards > 0 {
			res, ds := c.RunWorkers(spec)
			total.Merge(res)
			deaths = append(deaths, ds...)
		}
	}

	if c.Prop == "C07" || c.Prop == "C11" {
		total.Merge(fmtBinarySample(c))
	}
	reportAll(c, total)
	inconclusive := total.Inconclusive
	for _, d := range deaths {
		switch {
		case c.Prop == "C08":
			clause := map[string]string{"crash": "no-crash", "race": "no-race", "spin": "terminates", "deadlock": "terminates"}[strings.Fields(d.Kind)[0]]
			if clause == "" {
				inconclusive++
				continue
			}
			c.Report(deathViolation("C08", d, clause))
		case c.Prop == "C16" && (strings.HasPrefix(d.Kind, "spin") || strings.HasPrefix(d.Kind, "deadlock")):
			c.Report(deathViolation("C16", d, "finite-stream"))
		default:
			inconclusive++
			fmt.Printf("INCONCLUSIVE: a worker died (%s, exit %d, signal %q) while checking %s; crashes belong to C08. stderr tail:\n%s\nrace log:\n%s\n", d.Kind, d.Exit, d.Signal, c.Prop, core.Trunc(d.StderrTail, 1500), core.Trunc(d.RaceLog, 1500))
		}
	}

	distinct := total.DistinctCount()
	// strings of 5 and more symbols are counted per alphabet at their canonical spelling (exact within
	// an alphabet); the alphabets overlap, so only the largest of the three counts is added: a lower bound
	var bulk int64
	for _, k := range []string{"classA", "classB", "classC"} {
		if n := total.Counters["canonical_nontrivial_"+k]; n > bulk {
			bulk = n
		}
	}
	distinct += bulk
	cov := map[string]any{
		"evaluations":         total.Evaluations,
		"distinct_nontrivial": distinct,
		"rule":                parseRules[c.Prop],
		"samples":             total.Samples,
		"counters":            total.Counters,
		"inconclusive":        inconclusive,
		"blocks":              len(blocks),
		"worker_deaths":       len(deaths),
		"exhaustive":          false,
		"distinct_counting":   "inputs of fewer than 5 symbols, generated programs and mutants: by hash; class strings of 5+ symbols: counted per alphabet at their canonical spelling, the largest of the three per-alphabet counts is added (lower bound, the alphabets overlap)",
	}
	for k, v := range total.SetSizes() {
		cov["distinct_"+k] = v
	}
	if vs := total.SetValues("error_kinds"); len(vs) > 0 {
		cov["error_kinds_seen"] = vs
	}
	if vs := total.SetValues("token_types"); len(vs) > 0 {
		cov["token_types_seen"] = vs
	}
	maxLen := 4
	if c.Thorough() {
		maxLen = 6
	}
	if c.Prop != "C06" {
		cov["class_alphabets"] = map[string]any{"A": gen.AlphabetA, "B": gen.AlphabetB, "C": gen.AlphabetC, "all_strings_up_to_length": maxLen, "all_strings_up_to_length_C": maxLen + 1,
			"note": "the class-alphabet part of the input space is enumerated completely up to this length; generated programs and mutants are seeded samples"}
	}
	c.WriteEvidence("exploration", cov, []string{
		"the harness links the spok packages of /repo's working tree (race build, tag verif); bulk enumeration beyond length 5 runs on the plain build",
		"held on the executions produced: bounded strings and seeded samples, not a proof",
		"admissible text is defined by the generator of DESIGN.md 5.1 (derived from the lexer's rules), not by an independent grammar",
	})
	floor := int64(1000)
	if distinct < floor || total.Evaluations < floor {
		fmt.Printf("INCONCLUSIVE: coverage floor missed (evaluations=%d distinct_nontrivial=%d)\n", total.Evaluations, distinct)
		return false
	}
	return inconclusive == 0
}

func filterP1(blocks []pblock) []pblock {
	var sub []pblock
	for _, b := range blocks {
		if !b.Fast && (b.Kind == "prog" || b.Kind == "mut" || b.Kind == "prefix") && b.ID%4 == 0 {
			sub = append(sub, b)
		}
	}
	return sub
}

// ---------------------------------------------------------------------------
// Worker

type pcase struct {
	Kind  string    `json:"kind"`
	B64   string    `json:"input_b64"`
	Q     string    `json:"input_quoted"`
	Prog  *gen.Prog `json:"prog,omitempty"`
	Block int       `json:"block"`
}

func mkCase(kind, x string, block int) pcase {
	return pcase{Kind: kind, B64: base64.StdEncoding.EncodeToString([]byte(x)), Q: strconv.Quote(x), Block: block}
}

type pworker struct {
	c       *core.Ctx
	res     *core.ShardResult
	wl      *core.WLog
	seeds   []string
	shrunk  int
	curBlk  int
	curIdx  int
	curKind string
	// for generated comment programs: the non-empty trimmed comment texts the generator wrote
	expectComments []string
}

func parseWorker(c *core.Ctx) {
	blocks := planBlocks(c)
	var mine []pblock
	switch c.Sub {
	case "parse":
		mine = shardPlan(blocks, false)[c.Shard]
	case "parsefast":
		mine = shardPlan(blocks, true)[c.Shard]
	case "parsep1":
		mine = shardPlan(filterP1(blocks), false)[c.Shard]
	}
	w := &pworker{c: c, res: core.NewShardResult(), wl: core.OpenWLog(), seeds: gen.Seeds()}
	for _, b := range mine {
		if b.ID < w.wl.Start {
			continue
		}
		w.wl.Block(b.ID)
		w.runBlock(b)
	}
	core.WriteResult(w.res)
}

func (w *pworker) runBlock(b pblock) {
	w.curBlk, w.curIdx, w.curKind = b.ID, 0, b.Kind
	r := w.c.Rng(core.StrKey("parse"), uint64(b.ID))
	switch b.Kind {
	case "classA", "classB", "classC":
		alpha := gen.Alphabet(b.Kind)
		var buf strings.Builder
		for idx := b.Lo; idx < b.Hi; idx++ {
			if b.N >= 5 {
				// bulk enumeration: counted (canonical spellings are distinct by construction), not hashed
				w.res.CountOnly = "-"
				if gen.ClassCanonical(b.Kind, alpha, b.N, idx) {
					w.res.CountOnly = "canonical_nontrivial_" + b.Kind
				}
			}
			w.input(gen.ClassString(alpha, b.N, idx, &buf), nil)
		}
		w.res.CountOnly = ""
	case "prog":
		for i := 0; i < b.Count; i++ {
			p := gen.RandProg(r, 6)
			okAll := true
			for k := 0; k < b.N; k++ {
				lay := gen.Layout{C: gen.RandChooser{R: r}}
				switch r.Intn(4) {
				case 0:
					lay.EOL = "\r\n"
				case 1:
					if w.c.Thorough() || w.c.Prop == "C16" {
						lay.EOL = "" // mixed
					} else {
						lay.EOL = "\n"
					}
				default:
					lay.EOL = "\n"
				}
				text := lay.Write(p)
				if !w.input(text, &p) {
					okAll = false
				}
			}
			if w.c.Prop == "C06" && okAll && len(p.Stmts) > 0 {
				w.res.Distinct(core.Hash64("prog", p.Canon()))
			}
		}
	case "layouts":
		// every layout of one small structure
		p := smallStructure(r, b.ID)
		n := 0
		complete := true
		okAll := true
		for _, eol := range []string{"\n", "\r\n"} {
			od := &gen.Odometer{}
			k := 0
			for {
				lay := gen.Layout{C: od, Small: true, EOL: eol}
				text := lay.Write(p)
				if !w.input(text, &p) {
					okAll = false
				}
				n++
				k++
				if !od.Next() {
					break
				}
				if k >= b.N/2 {
					complete = false
					break
				}
			}
		}
		if complete {
			w.res.Count("structures_with_all_layouts", 1)
		} else {
			w.res.Count("structures_layout_cap_hit", 1)
		}
		w.res.Count("exhaustive_layouts", int64(n))
		if okAll {
			w.res.Distinct(core.Hash64("small", p.Canon()))
		}
	case "mut":
		m := gen.NewMutator(r, w.seeds)
		// generated programs join the pool too
		for i := 0; i < 20; i++ {
			p := gen.RandProg(r, 5)
			m.Feed((&gen.Layout{C: gen.RandChooser{R: r}, EOL: "\n"}).Write(p))
		}
		for i := 0; i < b.Count; i++ {
			x := m.Next()
			if w.input(x, nil) && parsesQuick(x) && r.Chance(20) {
				m.Feed(x)
			}
		}
	case "comment":
		for i := 0; i < b.Count; i++ {
			text, want := commentProgram(r)
			w.expectComments = want
			w.input(text, nil)
			w.expectComments = nil
		}
	case "prefix":
		for i := 0; i < b.Count; i++ {
			p := gen.RandProg(r, 5)
			lay := gen.Layout{C: gen.RandChooser{R: r}, EOL: []string{"\n", "\n", "\r\n"}[r.Intn(3)]}
			text := lay.Write(p)
			for k := 0; k <= len(text); k++ {
				w.input(text[:k], nil)
			}
		}
	case "raw":
		for i := 0; i < b.Count; i++ {
			w.input(gen.RawBytes(r), nil)
		}
	case "long":
		// mutants stretched by one very long line or token, around the buffer sizes tools like to use
		m := gen.NewMutator(r, w.seeds)
		for i := 0; i < b.Count; i++ {
			x := m.Next()
			n := core.Pick(r, []int{4095, 4096, 4097, 65535, 65536, 65537, 70000, 131073})
			if r.Chance(2) {
				n = 1<<20 + 1
			}
			at := r.Intn(len(x) + 1)
			switch r.Intn(5) {
			case 0: // a long comment line in front
				x = "# " + strings.Repeat("c", n) + "\n" + x
			case 1: // a long run of blanks inside a line
				x = x[:at] + strings.Repeat(" ", n) + x[at:]
			case 2: // a long identifier
				x = x[:at] + " " + strings.Repeat("a", n) + " " + x[at:]
			case 3: // a long string
				x = x[:at] + "\"" + strings.Repeat("s", n) + "\"" + x[at:]
			case 4: // a long line of multi-byte text in a comment at the end
				x = x + "\n# " + strings.Repeat("é", n/2) + "\n"
			}
			w.res.Count("inputs_with_a_line_over_64KiB", map[bool]int64{true: 1, false: 0}[n > 65536])
			w.wl.Tick() // these inputs are large: one progress line per finished input
			w.input(x, nil)
		}
	case "concurrent":
		// the same inputs parsed by several goroutines at once must give what they give one at a time
		m := gen.NewMutator(r, w.seeds)
		var inputs []string
		for len(inputs) < 400 {
			inputs = append(inputs, m.Next())
		}
		seq := make([]string, len(inputs))
		for i, x := range inputs {
			seq[i] = parseOutcome(x)
		}
		w.wl.Tick()
		idx := w.curIdx
		w.curIdx++
		if !w.wl.Begin(w.curBlk, idx, func() any { return mkCase("concurrent", strings.Join(inputs[:3], "\x00"), w.curBlk) }) {
			return
		}
		var wg sync.WaitGroup
		var mu sync.Mutex
		var firstBad *core.Violation
		for g := 0; g < 8; g++ {
			wg.Add(1)
			go func(g int) {
				defer wg.Done()
				for k := 0; k < len(inputs); k++ {
					if g == 0 && k%50 == 49 {
						mu.Lock()
						w.wl.Tick() // eight goroutines burn the stall guard's CPU budget eight times as fast
						mu.Unlock()
					}
					i := (k*7 + g*53) % len(inputs)
					if got := parseOutcome(inputs[i]); got != seq[i] {
						mu.Lock()
						if firstBad == nil {
							cs := mkCase("concurrent", inputs[i], w.curBlk)
							firstBad = &core.Violation{Property: "C08", Clause: "deterministic", Key: "concurrent:" + strconv.Quote(inputs[i]),
								Detail: fmt.Sprintf("parsed alone: %s; parsed while other goroutines were parsing: %s (input %s)", core.Trunc(seq[i], 200), core.Trunc(got, 200), core.Trunc(strconv.Quote(inputs[i]), 200)), Case: core.JSON(cs)}
						}
						mu.Unlock()
					}
				}
			}(g)
		}
		wg.Wait()
		w.res.Evaluations += int64(8 * len(inputs))
		w.res.Count("concurrent_parses", int64(8*len(inputs)))
		if firstBad != nil {
			w.res.Violate(*firstBad)
		}
	}
}

var lastParseOK bool

func parsesQuick(string) bool { return lastParseOK }

// input judges one input with the oracle of the property being checked.
// It returns false if a violation was recorded.
func (w *pworker) input(x string, p *gen.Prog) bool {
	idx := w.curIdx
	w.curIdx++
	if idx%256 == 255 {
		w.wl.Tick() // progress between blocks of small inputs on a slow or loaded machine
	}
	if !w.wl.Begin(w.curBlk, idx, func() any { return mkCase(w.curKind, x, w.curBlk) }) {
		return true
	}
	w.res.Evaluations++
	v := w.judge(x, p, true)
	if v == nil {
		return true
	}
	// shrink to a canonical witness (bounded), then record
	if w.shrunk < 12 && p == nil {
		w.shrunk++
		clause := v.Clause
		small := shrinkString(x, func(y string) bool {
			w.wl.Tick() // progress: each attempt is one more finished oracle call
			nv := w.judge(y, nil, false)
			return nv != nil && nv.Clause == clause
		})
		if nv := w.judge(small, nil, false); nv != nil {
			v = nv
			x = small
		}
	} else if w.shrunk < 12 && p != nil {
		w.shrunk++
	}
	cs := mkCase(w.curKind, x, w.curBlk)
	cs.Prog = p
	v.Case = core.JSON(cs)
	if v.Key == "" {
		v.Key = strconv.Quote(x)
	}
	v.Property = w.c.Prop
	w.res.Violate(*v)
	return false
}

func (w *pworker) judge(x string, p *gen.Prog, record bool) (v *core.Violation) {
	defer func() {
		if r := recover(); r != nil {
			clause := "no-panic"
			v = &core.Violation{Clause: clause, Detail: fmt.Sprintf("panic: %v on input %s", r, core.Trunc(strconv.Quote(x), 300))}
		}
	}()
	res := w.res
	if !record {
		res = core.NewShardResult()
	}
	switch w.c.Prop {
	case "C06":
		return oracleC06(x, p, res)
	case "C07", "C11", "C15":
		if v := oracleFmt(w.c.Prop, x, p, res); v != nil {
			return v
		}
		if w.c.Prop == "C15" && w.expectComments != nil {
			// the comments the generator wrote must be the comments of the formatted text
			if t, err := parse(x); err == nil {
				if t2, err2 := parse(t.String()); err2 == nil {
					got, _ := comments(t2)
					if !reflect.DeepEqual(got, w.expectComments) && !(len(got) == 0 && len(w.expectComments) == 0) {
						return &core.Violation{Clause: "comments-kept-verbatim", Detail: fmt.Sprintf("the comments written %q come back from the formatted text as %q (input %s)", w.expectComments, got, core.Trunc(strconv.Quote(x), 300))}
					}
					res.Count("generator_known_comment_lists_checked", 1)
				}
			}
		}
		return nil
	case "C08":
		return oracleC08(x, res)
	case "C16":
		return oracleC16(x, res)
	}
	return nil
}

// ---------------------------------------------------------------------------
// Oracles

func parse(x string) (ast.Tree, error) {
	t, err := parser.New(x).Parse()
	lastParseOK = err == nil
	return t, err
}

// C06: the parser returns exactly the generating structure.
func oracleC06(x string, p *gen.Prog, res *core.ShardResult) *core.Violation {
	if p == nil {
		return nil
	}
	t, err := parse(x)
	if err != nil {
		return &core.Violation{Clause: "admissible-layout-parses", Detail: fmt.Sprintf("parse error %q for admissible text %s", err.Error(), core.Trunc(strconv.Quote(x), 400))}
	}
	got, perr := gen.Project(t)
	if perr != nil {
		return &core.Violation{Clause: "structure-recovered", Detail: perr.Error()}
	}
	want := p.Canon()
	if got.Canon() != want {
		return &core.Violation{Clause: "structure-recovered",
			Detail: fmt.Sprintf("parsed structure differs from the one written.\nwant:\n%s\ngot:\n%s\ntext: %s", want, got.Canon(), core.Trunc(strconv.Quote(x), 400))}
	}
	res.Count("layouts_parsed", 1)
	if strings.Contains(x, "\r\n") {
		res.Count("layouts_crlf", 1)
	}
	res.Sample(map[string]any{"text": x, "structure": p}, 3)
	return nil
}

// semCanon is what a spokfile *does*: assignments and tasks in order, without comments.
func semCanon(t ast.Tree) (string, error) {
	p, err := gen.Project(t)
	if err != nil {
		return "", err
	}
	var q gen.Prog
	for _, st := range p.Stmts {
		if st.Kind == "comment" {
			continue
		}
		st.Doc = nil
		q.Stmts = append(q.Stmts, st)
	}
	return q.Canon(), nil
}

// comments returns the non-empty trimmed comment texts in document order and the
// (task, docstring) pairs.
func comments(t ast.Tree) ([]string, []string) {
	var cs, docs []string
	for _, n := range t.Nodes {
		switch v := n.(type) {
		case ast.Comment:
			if s := strings.TrimSpace(v.Text); s != "" {
				cs = append(cs, s)
			}
		case ast.Task:
			d := strings.TrimSpace(v.Docstring.Text)
			if d != "" {
				cs = append(cs, d)
			}
			docs = append(docs, v.Name.Name+"\x00"+d)
		}
	}
	return cs, docs
}

func hasExec(p *gen.Prog) bool {
	for _, st := range p.Stmts {
		if st.Call == "exec" {
			return true
		}
	}
	return false
}

type nullLogger struct{}

func (nullLogger) Sync() error          { return nil }
func (nullLogger) Debug(string, ...any) {}

// oracleFmt serves C07, C11 and C15 (they share parse -> format -> parse).
func oracleFmt(prop, x string, p *gen.Prog, res *core.ShardResult) *core.Violation {
	t, err := parse(x)
	if err != nil {
		res.Count("inputs_not_parsing", 1)
		return nil
	}
	res.Count("inputs_parsing", 1)
	if len(t.Nodes) == 0 {
		res.Count("inputs_empty_tree", 1)
	}
	f1 := t.String()
	t2, err2 := parse(f1)
	qx := core.Trunc(strconv.Quote(x), 300)
	switch prop {
	case "C07":
		if err2 != nil {
			return &core.Violation{Clause: "formatted-text-parses", Detail: fmt.Sprintf("input %s parses, its formatted text %s does not: %s", qx, core.Trunc(strconv.Quote(f1), 300), firstLine(err2.Error()))}
		}
		s1, e1 := semCanon(t)
		s2, e2 := semCanon(t2)
		if e1 != nil || e2 != nil {
			return &core.Violation{Clause: "same-meaning", Detail: fmt.Sprintf("unprojectable tree: %v %v", e1, e2)}
		}
		if s1 != s2 {
			return &core.Violation{Clause: "same-meaning", Detail: fmt.Sprintf("formatting changed the meaning of %s\nbefore:\n%s\nafter:\n%s", qx, s1, s2)}
		}
		if p != nil && !hasExec(p) {
			// generator-produced, exec-free: also compare what the loader makes of both
			a, ea := file.New(t, "/nonexistent/verif", nullLogger{})
			b, eb := file.New(t2, "/nonexistent/verif", nullLogger{})
			res.Count("loaded_both_ways", 1)
			if (ea == nil) != (eb == nil) {
				return &core.Violation{Clause: "same-meaning-loaded", Detail: fmt.Sprintf("loads before formatting: %v, after: %v (%s)", ea, eb, qx)}
			}
			if ea == nil && (!reflect.DeepEqual(a.Vars, b.Vars) || !reflect.DeepEqual(a.Tasks, b.Tasks)) {
				return &core.Violation{Clause: "same-meaning-loaded", Detail: fmt.Sprintf("loaded variables/tasks differ after formatting %s", qx)}
			}
		}
		if len(t.Nodes) > 0 {
			res.Distinct(core.Hash64(x))
			res.Sample(map[string]any{"input": x, "formatted": f1}, 3)
		}
	case "C11":
		if err2 != nil {
			res.Count("reparse_failed_left_to_C07", 1)
			return nil
		}
		f2 := t2.String()
		if f1 != f2 {
			return &core.Violation{Clause: "idempotent", Detail: fmt.Sprintf("format(format(x)) != format(x) for x=%s\nf1=%s\nf2=%s", qx, core.Trunc(strconv.Quote(f1), 300), core.Trunc(strconv.Quote(f2), 300))}
		}
		if len(t.Nodes) > 0 {
			res.Distinct(core.Hash64(x))
			res.Sample(map[string]any{"input": x, "formatted": f1}, 3)
		}
	case "C15":
		if err2 != nil {
			res.Count("reparse_failed_left_to_C07", 1)
			return nil
		}
		c1, d1 := comments(t)
		c2, d2 := comments(t2)
		if !reflect.DeepEqual(c1, c2) {
			return &core.Violation{Clause: "comments-kept", Detail: fmt.Sprintf("comments before %q after %q for input %s (formatted %s)", c1, c2, qx, core.Trunc(strconv.Quote(f1), 300))}
		}
		if !reflect.DeepEqual(d1, d2) {
			return &core.Violation{Clause: "docstrings-kept", Detail: fmt.Sprintf("docstrings before %q after %q for input %s (formatted %s)", d1, d2, qx, core.Trunc(strconv.Quote(f1), 300))}
		}
		// independent of the tree: every line of the input that starts with '#' and says something is
		// a comment or a docstring (nothing else can start a line with '#' in a file that parses), and
		// its text must be found on a '#' line of the formatted text
		want := hashLines(x)
		have := hashLines(f1)
		if hashCommands(t) {
			// inside a task body a line that starts with '#' (after the first command) is a command to the
			// pinned grammar, not a comment: such inputs are left to the comparison of the trees above
			want = nil
			res.Count("inputs_with_hash_commands_not_judged_by_text", 1)
		}
		for txt, n := range want {
			if have[txt] < n {
				return &core.Violation{Clause: "comment-lines-kept", Detail: fmt.Sprintf("the input holds %d line(s) \"#%s\", the formatted text %d: input %s (formatted %s)", n, txt, have[txt], qx, core.Trunc(strconv.Quote(f1), 300))}
			}
		}
		if len(c1) > 0 {
			res.Distinct(core.Hash64(x))
			res.Sample(map[string]any{"input": x, "comments": c1}, 3)
			res.Count("comments_compared", int64(len(c1)))
		}
	}
	return nil
}

// hashCommands reports whether some command of some task starts with '#'.
func hashCommands(t ast.Tree) bool {
	for _, n := range t.Nodes {
		if v, ok := n.(ast.Task); ok {
			for _, c := range v.Commands {
				if strings.HasPrefix(strings.TrimSpace(c.Command), "#") {
					return true
				}
			}
		}
	}
	return false
}

// hashLines counts, by trimmed text, the lines whose first non-blank character is '#' (empty ones left out).
func hashLines(x string) map[string]int {
	out := map[string]int{}
	for _, line := range strings.Split(x, "\n") {
		line = strings.TrimSpace(line)
		if !strings.HasPrefix(line, "#") {
			continue
		}
		if txt := strings.TrimSpace(strings.TrimPrefix(line, "#")); txt != "" {
			out[txt]++
		}
	}
	return out
}

func firstLine(s string) string {
	if i := strings.IndexByte(s, '\n'); i >= 0 {
		return s[:i]
	}
	return s
}

// C08: deterministic result; located errors. (Crashes, hangs and races are seen by
// the orchestrator as worker deaths.)
func oracleC08(x string, res *core.ShardResult) *core.Violation {
	t1, e1 := parse(x)
	t2, e2 := parse(x)
	qx := core.Trunc(strconv.Quote(x), 300)
	if (e1 == nil) != (e2 == nil) || (e1 != nil && e1.Error() != e2.Error()) {
		return &core.Violation{Clause: "deterministic", Detail: fmt.Sprintf("two parses of %s disagree: %v / %v", qx, e1, e2)}
	}
	if !reflect.DeepEqual(t1, t2) {
		return &core.Violation{Clause: "deterministic", Detail: fmt.Sprintf("two parses of %s give different trees", qx)}
	}
	if e1 == nil {
		res.Count("parsed_ok", 1)
		if len(t1.Nodes) > 0 {
			res.Distinct(core.Hash64(x))
		}
		return nil
	}
	res.Count("parse_errors", 1)
	msg := e1.Error()
	lines := strings.Split(x, "\n")
	ok := false
	for n := 1; n <= len(lines); n++ {
		suffix := "\n\n" + strconv.Itoa(n) + " |\t" + strings.TrimSpace(lines[n-1])
		if strings.HasSuffix(msg, suffix) && strings.Contains(msg, "(Line "+strconv.Itoa(n)+")") {
			ok = true
			break
		}
	}
	if !ok {
		return &core.Violation{Clause: "located-error", Detail: fmt.Sprintf("error for %s (%d lines) does not cite a line in range and quote it: %s", qx, len(lines), core.Trunc(strconv.Quote(msg), 800))}
	}
	kind := msg
	if i := strings.Index(kind, "(Line"); i >= 0 {
		kind = kind[:i]
	}
	if len(kind) > 40 {
		kind = kind[:40]
	}
	res.Seen("error_kinds", strings.Map(func(r rune) rune {
		if r < 0x20 || r > 0x7e {
			return '?'
		}
		return r
	}, kind))
	res.Distinct(core.Hash64(x))
	if len(x) < 2000 {
		res.Sample(map[string]any{"input": x, "error": msg}, 3)
	}
	return nil
}

// C16: tokens tile the input.
func oracleC16(x string, res *core.ShardResult) *core.Violation {
	lx := lexer.New(x)
	lastParseOK = false
	qx := core.Trunc(strconv.Quote(x), 300)
	prevEnd := 0
	limit := 2*len(x) + 4
	ntok := 0
	for count := 0; ; count++ {
		if count > limit {
			return &core.Violation{Clause: "finite-stream", Detail: fmt.Sprintf("more than %d tokens without EOF/ERROR for %s", limit, qx)}
		}
		tok := lx.NextToken()
		if tok.Type == token.ERROR {
			res.Count("streams_ending_in_error", 1)
			break
		}
		if tok.Type == token.EOF {
			if tok.Line == 0 && tok.Pos == 0 && tok.Value == "" && len(x) != 0 {
				// channel closed without an EOF token having been emitted
				return &core.Violation{Clause: "eof-at-end", Detail: fmt.Sprintf("stream for %s ended (channel closed) without an EOF token", qx)}
			}
			if tok.Pos != len(x) {
				return &core.Violation{Clause: "eof-at-end", Detail: fmt.Sprintf("EOF token at offset %d, input length %d: %s", tok.Pos, len(x), qx)}
			}
			if !allSpace(x[prevEnd:]) {
				return &core.Violation{Clause: "only-whitespace-between", Detail: fmt.Sprintf("non-blank text %q between last token and EOF: %s", x[prevEnd:], qx)}
			}
			if want := 1 + strings.Count(x[:tok.Pos], "\n"); tok.Line != want {
				return &core.Violation{Clause: "line-number", Detail: fmt.Sprintf("EOF token line %d, want %d: %s", tok.Line, want, qx)}
			}
			res.Count("streams_ending_in_eof", 1)
			lastParseOK = true
			break
		}
		ntok++
		res.Seen("token_types", tok.Type.String())
		end := tok.Pos + len(tok.Value)
		if tok.Pos < 0 || end > len(x) || x[tok.Pos:end] != tok.Value {
			return &core.Violation{Clause: "token-is-slice", Detail: fmt.Sprintf("token %s %q at offset %d is not the input slice there: %s", tok.Type, tok.Value, tok.Pos, qx)}
		}
		if tok.Pos < prevEnd {
			return &core.Violation{Clause: "increasing-offsets", Detail: fmt.Sprintf("token %s %q at offset %d overlaps the previous token ending at %d: %s", tok.Type, tok.Value, tok.Pos, prevEnd, qx)}
		}
		if !allSpace(x[prevEnd:tok.Pos]) {
			return &core.Violation{Clause: "only-whitespace-between", Detail: fmt.Sprintf("non-blank text %q skipped before token %s %q at %d: %s", x[prevEnd:tok.Pos], tok.Type, tok.Value, tok.Pos, qx)}
		}
		if want := 1 + strings.Count(x[:tok.Pos], "\n"); tok.Line != want {
			return &core.Violation{Clause: "line-number", Detail: fmt.Sprintf("token %s %q at offset %d has line %d, want %d: %s", tok.Type, tok.Value, tok.Pos, tok.Line, want, qx)}
		}
		prevEnd = end
	}
	res.Count("tokens_checked", int64(ntok))
	if ntok >= 2 {
		res.Distinct(core.Hash64(x))
		if len(x) < 2000 {
			res.Sample(map[string]any{"input": x, "tokens": ntok}, 3)
		}
	}
	return nil
}

func allSpace(s string) bool {
	for len(s) > 0 {
		r, w := utf8.DecodeRuneInString(s)
		if !unicode.IsSpace(r) {
			return false
		}
		s = s[w:]
	}
	return true
}

// ---------------------------------------------------------------------------
// Generators local to this engine

// smallStructure returns the k-th of a fixed family of small structures whose
// layouts are enumerated completely.
func smallStructure(r *core.Rng, k int) gen.Prog {
	s := func(x string) *string { return &x }
	fixed := []gen.Prog{
		{Stmts: []gen.Stmt{{Kind: "task", Name: "t", Cmds: []string{"go test ./..."}}}},
		{Stmts: []gen.Stmt{{Kind: "assign", Name: "X", Str: s("v")}, {Kind: "task", Name: "t", Deps: []gen.Arg{{Text: "a.go"}}}}},
		{Stmts: []gen.Stmt{{Kind: "task", Name: "b", Doc: s(" doc"), Deps: []gen.Arg{{Ident: true, Text: "a"}, {Text: "*.go"}}, Outs: []gen.Arg{{Text: "out"}}}}},
		{Stmts: []gen.Stmt{{Kind: "assign", Name: "P", Call: "join", Args: []gen.Arg{{Text: "a"}, {Text: "b"}}}}},
		{Stmts: []gen.Stmt{{Kind: "task", Name: "é", Outs: []gen.Arg{{Ident: true, Text: "OUT"}, {Text: "o"}}, Cmds: []string{"echo {{.X}}", "true"}}}},
		{Stmts: []gen.Stmt{{Kind: "comment", Text: " c"}, {Kind: "assign", Name: "A", Str: s("")}}},
		{Stmts: []gen.Stmt{{Kind: "task", Name: "t", Outs: []gen.Arg{{Ident: true, Text: "O"}}, Cmds: []string{"a"}}}},
		{Stmts: []gen.Stmt{{Kind: "task", Name: "t"}, {Kind: "task", Name: "u", Deps: []gen.Arg{{Ident: true, Text: "t"}}, Cmds: []string{"x", "y"}}}},
	}
	if k < 0 {
		k = -k
	}
	idx := k % (len(fixed) + 4)
	if idx < len(fixed) {
		return fixed[idx]
	}
	for {
		p := gen.RandProg(r, 2)
		if len(p.Stmts) > 0 {
			return p
		}
	}
}

// commentProgram puts comments in every position the syntax allows.
func commentProgram(r *core.Rng) (string, []string) {
	var b strings.Builder
	var want []string
	cmt := func() {
		n := r.Range(1, 4)
		for i := 0; i < n; i++ {
			switch r.Intn(5) {
			case 0:
				b.WriteString("#\n")
			case 1:
				b.WriteString("#" + strings.Repeat(" ", r.Range(1, 3)) + "\n")
			default:
				c := core.Pick(r, []string{" c", "c", "  two words ", " é", "\tx", " # nested", " task t() {}", " say \"hi\" twice", " a  b", " 100% (of) {it}"}) + strconv.Itoa(r.Intn(5))
				b.WriteString("#" + c + "\n")
				want = append(want, strings.TrimSpace(c))
			}
			if r.Chance(25) {
				b.WriteString("\n")
			}
		}
	}
	n := r.Range(0, 5)
	for i := 0; i < n; i++ {
		if r.Chance(60) {
			cmt()
		}
		switch r.Intn(4) {
		case 0:
			b.WriteString(core.Pick(r, []string{"X", "Y", "tasks"}) + " := \"v\"\n")
		case 1:
			b.WriteString("P := join(\"a\", \"b\")")
			if r.Chance(30) {
				b.WriteString(" # trailing\n")
				want = append(want, "trailing")
			} else {
				b.WriteString("\n")
			}
		default:
			name := core.Pick(r, []string{"a", "b", "build", "t"})
			b.WriteString("task " + name + "(" + core.Pick(r, []string{"", "\"f\"", "x"}) + ")" + core.Pick(r, []string{"", " -> \"o\"", " -> (A, \"b\")"}) + " {")
			if r.Chance(50) {
				b.WriteString("\n    cmd\n")
			}
			b.WriteString("}\n")
		}
		if r.Chance(30) {
			b.WriteString("\n")
		}
	}
	if r.Chance(50) {
		cmt()
	}
	s := b.String()
	if r.Chance(20) {
		s = strings.TrimRight(s, "\n")
	}
	if r.Chance(15) {
		s = strings.ReplaceAll(s, "\n", "\r\n")
	}
	return s, want
}

// shrinkString reduces a failing input (bounded number of oracle calls).
func shrinkString(x string, fails func(string) bool) string {
	calls := 0
	budget := 16 << 20 // bytes handed to the oracle: a 1 MiB input gets ~25 attempts, a short one 1500
	try := func(y string) bool {
		if calls > 1500 || budget < 0 {
			return false
		}
		calls++
		budget -= len(y) + 1
		return fails(y)
	}
	cur := x
	for size := len(cur) / 2; size >= 1; size /= 2 {
		for i := 0; i+size <= len(cur); {
			y := cur[:i] + cur[i+size:]
			if try(y) {
				cur = y
			} else {
				i += size
			}
		}
	}
	// single bytes once more to a fixpoint
	for changed := true; changed && calls <= 1500; {
		changed = false
		for i := 0; i < len(cur); i++ {
			y := cur[:i] + cur[i+1:]
			if try(y) {
				cur = y
				changed = true
				i--
			}
		}
	}
	return cur
}

// ---------------------------------------------------------------------------
// Replay

func parseReplay(c *core.Ctx, v core.Violation) []core.Violation {
	var cs pcase
	if err := json.Unmarshal(v.Case, &cs); err != nil {
		core.Fatal("replay: bad case: %v", err)
	}
	raw, err := base64.StdEncoding.DecodeString(cs.B64)
	if err != nil {
		core.Fatal("replay: bad input: %v", err)
	}
	w := &pworker{c: c, res: core.NewShardResult()}
	nv := w.judge(string(raw), cs.Prog, false)
	if nv == nil {
		return nil
	}
	nv.Property = c.Prop
	nv.Case = v.Case
	if nv.Key == "" {
		nv.Key = strconv.Quote(string(raw))
	}
	return []core.Violation{*nv}
}

// fmtBinarySample drives `spok --fmt` end to end on generator-produced, exec-free,
// side-effect free programs in random layouts: what --show and --vars report must be
// the same before and after (C07), and a second --fmt must leave the file untouched (C11).
func fmtBinarySample(c *core.Ctx) *core.ShardResult {
	n := c.Q(150, 1500)
	out := make([]*core.ShardResult, n)
	core.ParallelFor(n, c.NCPU, func(i int) {
		res := core.NewShardResult()
		out[i] = res
		r := c.Rng(core.StrKey("fmt-binary"), uint64(i))
		p := c19Prog(r)
		lay := gen.Layout{C: gen.RandChooser{R: r}, EOL: []string{"\n", "\n", "\r\n"}[r.Intn(3)]}
		text := lay.Write(p)
		sb := newSandbox(c.TempDir("fmtb-"))
		defer os.RemoveAll(sb.Root)
		path := filepath.Join(sb.Proj, "spokfile")
		_ = os.WriteFile(path, []byte(text), 0o644)
		run := func(args ...string) core.Invocation {
			res.Evaluations++
			return core.RunSpok(core.SpokOpts{Bin: c.SpokRace(), Dir: sb.Proj, Home: sb.Home, Args: args})
		}
		bad := func(clause, format string, args ...any) {
			res.Violate(core.Violation{Property: c.Prop, Clause: clause, Key: "binary:" + strconv.Quote(text), Engine: "binary",
				Case: core.JSON(mkCase("binary", text, -1)), Detail: fmt.Sprintf(format, args...) + "\nspokfile: " + core.Trunc(strconv.Quote(text), 600)})
		}
		show1, vars1 := run("--show"), run("--vars")
		f1 := run("--fmt")
		if show1.Exit != 0 || vars1.Exit != 0 || f1.Exit != 0 {
			return // not loadable (e.g. join with an identifier argument): nothing to compare
		}
		b1, _ := os.ReadFile(path)
		show2, vars2 := run("--show"), run("--vars")
		res.Count("binary_fmt_cases", 1)
		if c.Prop == "C07" {
			if show2.Exit != 0 || vars2.Exit != 0 {
				bad("binary-fmt-keeps-file-working", "--show/--vars worked before --fmt and fail after it: %s %s", core.Trunc(show2.Stderr, 200), core.Trunc(vars2.Stderr, 200))
				return
			}
			if show1.Stdout != show2.Stdout || vars1.Stdout != vars2.Stdout {
				bad("binary-fmt-same-listing", "--show/--vars differ after --fmt:\nbefore %q %q\nafter  %q %q", show1.Stdout, vars1.Stdout, show2.Stdout, vars2.Stdout)
				return
			}
			// what the binary wrote must mean what the file meant before (whatever the CLI layer does
			// to the formatter's text on its way to the file)
			t0, e0 := parser.New(text).Parse() // (not parse(): that one keeps per-worker state)
			t1, e1 := parser.New(string(b1)).Parse()
			if e0 == nil {
				if e1 != nil {
					bad("binary-fmt-keeps-file-working", "the file written by --fmt does not parse: %v", e1)
					return
				}
				m0, _ := semCanon(t0)
				m1, _ := semCanon(t1)
				if m0 != m1 {
					bad("binary-fmt-same-meaning", "the file written by --fmt means something else:\nbefore %s\nafter  %s", core.Trunc(m0, 600), core.Trunc(m1, 600))
					return
				}
				res.Count("binary_fmt_meaning_compared", 1)
			}
		}
		if c.Prop == "C11" {
			f2 := run("--fmt")
			b2, _ := os.ReadFile(path)
			if f2.Exit != 0 || string(b1) != string(b2) {
				bad("binary-fmt-idempotent", "a second --fmt changed the file again (exit %d): %q -> %q", f2.Exit, core.Trunc(string(b1), 300), core.Trunc(string(b2), 300))
				return
			}
		}
		res.Distinct(core.Hash64("binary", text))
	})
	total := core.NewShardResult()
	for _, o := range out {
		total.Merge(o)
	}
	return total
}

// parseOutcome is a comparable summary of one parse: the error text or the formatted tree.
func parseOutcome(x string) string {
	t, err := parser.New(x).Parse()
	if err != nil {
		return "error: " + err.Error()
	}
	return "tree: " + t.String()
}
