package props

// C01, C02, C14: breadth-first search over real project states (to a fixpoint where
// the universe allows) plus seeded random histories in a larger universe; every run
// operation executes the real spok code and is judged by the monitor of hist.go.

import (
	"encoding/json"
	"fmt"
	"os"
	"path/filepath"
	"sort"
	"strings"
	"sync"

	"verif/harness/core"
)

func init() {
	for _, id := range []string{"C01", "C02", "C14"} {
		register(id, &Engine{Run: histRun, Worker: histWorker, Replay: histReplay})
	}
}

// hcase is a replayable history.
type hcase struct {
	Shape hshape   `json:"shape"`
	Alts  []hshape `json:"alts,omitempty"` // other versions of the spokfile (op "spokfile" switches to one; -1 = back to Shape)
	Ops   []hop    `json:"ops"`
	Via   string   `json:"via"` // inproc | binary
	// InPlace: edits are applied to the project directory as it stands (no re-materialisation
	// between operations), so that directory and file modification times have a real history
	InPlace bool `json:"in_place,omitempty"`
	Env     int  `json:"ambient_env,omitempty"` // > 0: every binary invocation runs with that core.HostileEnv variant
}

func (h hcase) key() string {
	var parts []string
	for _, o := range h.Ops {
		parts = append(parts, o.String())
	}
	k := h.Shape.Name + ": " + strings.Join(parts, "; ")
	for i, a := range h.Alts {
		k += fmt.Sprintf(" | spokfile version %d: %v", i, a.Tasks)
	}
	return k
}

// execHistory runs a history from the empty project and returns the violations of
// prop with the index of the operation at which each was seen, plus statistics.
type histStats struct {
	Runs, Skips, Reruns, DemSkips int
	MultiSkip, ForcedUp           bool
	SkipAfterEdit                 bool
	Decisions                     map[string]bool
	DiskStates                    map[string]bool
	ForcedThenUnforced            bool
}

func execHistory(c *core.Ctx, sb *sandbox, h hcase, prop string) ([]core.Violation, histStats) {
	stats := histStats{Decisions: map[string]bool{}, DiskStates: map[string]bool{}}
	st := newState()
	var vs []core.Violation
	edited := false
	spokfileEdited := false
	sawForcedUp := false
	shape := h.Shape
	sb.materialise(shape, st)
	sb.fixedEnv = h.Env
	defer func() { sb.fixedEnv = 0 }()
	for i, op := range h.Ops {
		if op.Kind == "spokfile" {
			// the user edits the spokfile: a task's declared dependencies change
			shape = h.Shape
			var k int
			if _, err := fmt.Sscanf(op.Value, "%d", &k); err == nil && k >= 0 && k < len(h.Alts) {
				shape = h.Alts[k]
			}
			edited = true
			spokfileEdited = true
			continue
		}
		if op.Kind != "run" {
			applyEdit(&st, op)
			edited = true
			if h.InPlace {
				sb.applyOnDisk(op)
			}
			continue
		}
		if h.InPlace {
			// only the spokfile is (re)written; everything else is what the history left on disk
			_ = os.WriteFile(filepath.Join(sb.Proj, "spokfile"), []byte(sb.spokfileText(shape)), 0o644)
		} else {
			sb.materialise(shape, st)
		}
		var o hobs
		if h.Via == "binary" || len(op.Tasks) == 0 {
			o = sb.runBinary(c.SpokRace(), shape, op, nil) // (no task names = the CLI's default handling)
		} else {
			o = sb.runInproc(shape, op)
		}
		pre := st.clone()
		sb.readBack(shape, &st)
		// once the spokfile itself has been edited, C02 is demanded only of tasks whose own declaration
		// is the one of their last success: a changed dependency declaration may name the same set of
		// files in a different way (a file listed twice), and whether that still counts as "unchanged"
		// is not stated (cf. duplicates in C04). "Never skipped wrongly" is judged of every task.
		mode := c02All
		if spokfileEdited {
			mode = c02SameDecl
		}
		vd := judgeRun(shape, pre, o, &st, mode)
		stats.Runs++
		stats.Skips += vd.Skips
		stats.Reruns += vd.Reruns
		stats.DemSkips += vd.DemSkips
		stats.MultiSkip = stats.MultiSkip || vd.MultiSkip
		if vd.ForcedUp {
			sawForcedUp = true
		}
		if sawForcedUp && !op.Force && vd.Skips+vd.Reruns > 0 {
			stats.ForcedThenUnforced = true
		}
		stats.ForcedUp = stats.ForcedUp || vd.ForcedUp
		if vd.Skips > 0 && edited {
			stats.SkipAfterEdit = true
		}
		for _, d := range o.Decisions {
			stats.Decisions[d] = true
		}
		stats.DiskStates[st.diskKey()] = true
		if strings.HasPrefix(o.Err, "CRASH:") {
			vs = append(vs, core.Violation{Property: prop, Clause: "binary-no-crash", Detail: fmt.Sprintf("op %d (%s): %s", i, op, core.Trunc(o.Err, 800))})
		}
		for _, v := range vd.Violations {
			if v.Property != prop {
				continue
			}
			v.Detail = fmt.Sprintf("at operation %d (%s): %s", i, op, v.Detail)
			v.Events = map[string]any{"observation": o, "files": pre.Files, "model_last_success": pre.Model}
			vs = append(vs, v)
		}
		_ = i
	}
	return vs, stats
}

// shrinkHistory removes operations while the same clause still fails.
func shrinkHistory(c *core.Ctx, sb *sandbox, h hcase, prop, clause string) hcase {
	fails := func(x hcase) bool {
		vs, _ := execHistory(c, sb, x, prop)
		for _, v := range vs {
			if v.Clause == clause {
				return true
			}
		}
		return false
	}
	cur := h
	for changed := true; changed; {
		changed = false
		for i := len(cur.Ops) - 1; i >= 0; i-- {
			cand := hcase{Shape: cur.Shape, Alts: cur.Alts, Via: cur.Via}
			cand.Ops = append(append([]hop{}, cur.Ops[:i]...), cur.Ops[i+1:]...)
			if fails(cand) {
				cur = cand
				changed = true
			}
		}
	}
	return cur
}

// ---------------------------------------------------------------------------
// Workers

func histWorker(c *core.Ctx) {
	res := core.NewShardResult()
	wl := core.OpenWLog()
	sb := newSandbox(c.TempDir("hist-"))
	defer os.RemoveAll(sb.Root)
	switch c.Sub {
	case "bfs":
		histBFS(c, sb, res, wl)
	case "rand":
		histRandom(c, sb, res, wl)
	case "inplace":
		histInPlace(c, sb, res, wl)
	case "alts":
		histAlts(c, sb, res, wl)
	}
	core.WriteResult(res)
}

type bfsNode struct {
	st     hstate
	parent int
	op     hop
}

func histBFS(c *core.Ctx, sb *sandbox, res *core.ShardResult, wl *core.WLog) {
	shape := histShapes[c.Shard%len(histShapes)]
	maxTrans := c.Q(25000, 2000000)
	if len(shape.Tasks) >= 3 {
		// (three tasks: seven request sets, twice with --force, plus failures - the state space is far
		// larger and the short histories that matter come first in a breadth-first search)
		maxTrans = c.Q(20000, 600000)
	}
	values := []string{"v1", ""} // an edit, and a file that exists but is empty
	if c.Thorough() {
		values = []string{"v1", "v2", ""}
	}
	edits := editOps(shape, values)
	runs := runOps(shape, true)
	nodes := []bfsNode{{st: newState(), parent: -1}}
	seen := map[string]int{nodes[0].st.key(): 0}
	disk := map[string]bool{}
	trans := 0
	reported := map[string]bool{}
	path := func(i int) []hop {
		var ops []hop
		for i > 0 {
			ops = append([]hop{nodes[i].op}, ops...)
			i = nodes[i].parent
		}
		return ops
	}
	add := func(n hstate, parent int, op hop) {
		// model components that the property being checked never looks at are dropped from
		// the state, so that the search merges more histories
		switch c.Prop {
		case "C01":
			n.LastFail, n.Forced = map[string]string{}, map[string]string{}
		case "C02":
			n.Forced = map[string]string{}
		case "C14":
			n.LastFail = map[string]string{}
		}
		k := n.key()
		if _, ok := seen[k]; !ok {
			seen[k] = len(nodes)
			nodes = append(nodes, bfsNode{st: n, parent: parent, op: op})
		}
	}
	wl.Block(c.Shard)
	complete := true
	for head := 0; head < len(nodes); head++ {
		if trans >= maxTrans {
			complete = false
			break
		}
		st := nodes[head].st
		disk[st.diskKey()] = true
		wl.Tick()
		for _, op := range edits {
			n := st.clone()
			applyEdit(&n, op)
			add(n, head, op)
		}
		for ri, op := range runs {
			if !wl.Begin(c.Shard, head*len(runs)+ri, func() any { return hcase{Shape: shape, Ops: append(path(head), op)} }) {
				continue
			}
			sb.materialise(shape, st)
			var o hobs
			if len(op.Tasks) == 0 {
				o = sb.runBinary(c.SpokPlain(), shape, op, nil) // no task names: the CLI's default handling
			} else {
				o = sb.runInproc(shape, op)
			}
			n := st.clone()
			sb.readBack(shape, &n)
			vd := judgeRun(shape, st, o, &n, c02All)
			trans++
			res.Evaluations++
			for _, d := range o.Decisions {
				res.Seen("decision_classes", d)
			}
			res.Count("skips_observed", int64(vd.Skips))
			res.Count("executions_observed", int64(vd.Reruns))
			res.Count("skips_demanded", int64(vd.DemSkips))
			nontrivial := false
			switch c.Prop {
			case "C01":
				nontrivial = vd.Skips > 0
			case "C02":
				nontrivial = vd.DemSkips > 0 && vd.MultiSkip
			case "C14":
				nontrivial = op.Force && vd.ForcedUp
			}
			if nontrivial {
				res.Distinct(core.Hash64(shape.Name, st.key(), op.String()))
			}
			if n.Other != "" {
				res.Count("unexpected_project_content", 1)
				res.Inconclusive++
			}
			for _, v := range vd.Violations {
				if v.Property != c.Prop || reported[v.Clause+v.Detail] {
					continue
				}
				reported[v.Clause+v.Detail] = true
				if len(reported) > 8 {
					continue
				}
				h := hcase{Shape: shape, Ops: append(path(head), op), Via: "inproc"}
				v.Detail = fmt.Sprintf("after %d operations, at %q: %s", len(h.Ops)-1, op.String(), v.Detail)
				v.Key = h.key()
				v.Case = core.JSON(h)
				v.Events = map[string]any{"observation": o, "files": st.Files, "model_last_success": st.Model, "cache_before": st.Cache}
				res.Violate(v)
			}
			add(n, head, op)
		}
	}
	res.Count("bfs_states", int64(len(nodes)))
	res.Count("bfs_transitions", int64(trans))
	res.Count("bfs_disk_states", int64(len(disk)))
	if complete {
		res.Count("bfs_shapes_at_fixpoint", 1)
		res.Seen("fixpoint_shapes", fmt.Sprintf("%s: %d states, %d run transitions", shape.Name, len(nodes), trans))
	} else {
		res.Seen("capped_shapes", fmt.Sprintf("%s: cap of %d run transitions hit with %d states found", shape.Name, maxTrans, len(nodes)))
	}
	if len(nodes) > 3 {
		res.Sample(map[string]any{"shape": shape.Name, "spokfile": sb.spokfileText(shape), "a_path_of_the_search": hcase{Shape: shape, Ops: path(len(nodes) - 1)}.key()}, 1)
	}
}

var randFiles = []string{"a.txt", "b.txt", "sub/s.txt", "sub/deep/d.txt", ".h.txt", "sub/.h.txt", "c.md"}
var randGlobs = []string{"*.txt", "**/*.txt", "sub/*.txt", "sub/**", "*", "**/*.md", "*.{txt,md}"}

var reservedLooking = []string{"last", "cache", "version", "tasks", "digest", "spok", "all", "state", "files", "sum", "index", "meta", "previous", "history", "default", "clean_all"}

func randShape(r *core.Rng) hshape {
	if r.Chance(35) {
		return core.Pick(r, histShapes)
	}
	n := r.Range(1, 3)
	names := []string{"A", "B", "C"}
	if r.Chance(40) {
		// names a tool might use for bookkeeping of its own
		names = append([]string{}, reservedLooking...)
		core.Shuffle(r, names)
	}
	s := hshape{Name: "random"}
	used := map[string]bool{}
	for i := 0; i < n; i++ {
		t := htask{Name: names[i], NCmd: r.Range(1, 2)}
		for k := r.Range(0, 2); k > 0; k-- {
			f := core.Pick(r, randFiles[:4])
			t.Lits = append(t.Lits, f)
			used[f] = true
		}
		if i > 0 && r.Chance(35) {
			// tasks very often share their glob patterns
			t.Globs = append(t.Globs, s.Tasks[r.Intn(i)].Globs...)
		} else {
			for k := r.Range(0, 2); k > 0; k-- {
				t.Globs = append(t.Globs, core.Pick(r, randGlobs))
			}
		}
		for j := 0; j < i; j++ {
			if r.Chance(35) {
				t.Deps = append(t.Deps, names[j])
			}
		}
		if r.Chance(30) {
			// declared outputs, which other tasks may well name as inputs
			t.Outs = append(t.Outs, core.Pick(r, append(append([]string{}, randFiles[:4]...), randGlobs[:4]...)))
		}
		s.Tasks = append(s.Tasks, t)
	}
	s.Files = append([]string{}, randFiles...)
	s.Name = "random:" + fmt.Sprint(s.Tasks)
	return s
}

func randHistory(r *core.Rng, length int) hcase {
	s := randShape(r)
	h := hcase{Shape: s, Via: "inproc"}
	values := []string{"v1", "v2", "v3", "", "l1\nl2\n", "l1\r\nl2\r\n"}
	// start from a populated project most of the time
	if r.Chance(80) {
		for _, f := range s.Files {
			if r.Chance(70) {
				h.Ops = append(h.Ops, hop{Kind: "write", File: f, Value: core.Pick(r, values)})
			}
		}
	}
	if r.Chance(35) {
		// a second version of the spokfile in which one task declares one dependency more or less
		alt := hshape{Name: s.Name, Files: s.Files}
		for _, t := range s.Tasks {
			nt := t
			nt.Lits = append([]string{}, t.Lits...)
			nt.Globs = append([]string{}, t.Globs...)
			alt.Tasks = append(alt.Tasks, nt)
		}
		t := &alt.Tasks[r.Intn(len(alt.Tasks))]
		switch {
		case len(t.Lits) > 0 && r.Chance(40):
			t.Lits = t.Lits[1:]
		case len(t.Globs) > 0 && r.Chance(40):
			t.Globs = t.Globs[:len(t.Globs)-1]
		case r.Bool():
			t.Lits = append(t.Lits, core.Pick(r, randFiles[:4]))
		default:
			t.Globs = append(t.Globs, core.Pick(r, randGlobs))
		}
		h.Alts = []hshape{alt}
		// a version in which only the command text of one task differs (declarations and inputs are the same)
		cmdv := hshape{Name: s.Name, Files: s.Files, Links: s.Links, Tasks: append([]htask{}, s.Tasks...)}
		cmdv.Tasks[r.Intn(len(cmdv.Tasks))].CmdTag = "v2"
		h.Alts = append(h.Alts, cmdv)
		// a third version in which the last task is gone (and comes back when the original is restored)
		if len(s.Tasks) > 1 {
			gone := hshape{Name: s.Name, Files: s.Files, Links: s.Links, Tasks: append([]htask{}, s.Tasks[:len(s.Tasks)-1]...)}
			h.Alts = append(h.Alts, gone)
		}
	}
	for len(h.Ops) < length {
		switch k := r.Intn(100); {
		case len(h.Alts) > 0 && k < 8:
			h.Ops = append(h.Ops, hop{Kind: "spokfile", Value: core.Pick(r, []string{"0", "1", "1", "-1", "-1", "-1", "2"})})
		case k < 50:
			var req []string
			for _, t := range s.Tasks {
				if r.Chance(60) {
					req = append(req, t.Name)
				}
			}
			if len(req) == 0 {
				req = []string{core.Pick(r, s.Tasks).Name}
			}
			if r.Bool() {
				core.Shuffle(r, req)
			}
			op := hop{Kind: "run", Tasks: req, Force: r.Chance(25)}
			if r.Chance(20) {
				cl := s.closure(req)
				t := s.task(core.Pick(r, cl))
				op.Fail = fmt.Sprintf("%s.%d", t.Name, r.Intn(t.NCmd))
			}
			h.Ops = append(h.Ops, op)
		case k < 85:
			h.Ops = append(h.Ops, hop{Kind: "write", File: core.Pick(r, s.Files), Value: core.Pick(r, values)})
		case k < 93:
			h.Ops = append(h.Ops, hop{Kind: "delete", File: core.Pick(r, s.Files)})
		case k < 95:
			h.Ops = append(h.Ops, hop{Kind: "chmod", File: core.Pick(r, s.Files)})
		case k < 96:
			h.Ops = append(h.Ops, hop{Kind: core.Pick(r, []string{"tamper", "rmtag"})})
		case k < 98:
			h.Ops = append(h.Ops, hop{Kind: "rmcache"})
		default:
			h.Ops = append(h.Ops, hop{Kind: "rmcachefile"})
		}
	}
	return h
}

func histRandom(c *core.Ctx, sb *sandbox, res *core.ShardResult, wl *core.WLog) {
	defer histAmbient(c, sb, res, wl)
	total := c.Q(320, 5000)
	length := c.Q(14, 25)
	wl.Block(0)
	shrunk := 0
	for i := 0; i < total; i++ {
		if i%c.NShards != c.Shard {
			continue
		}
		r := c.Rng(core.StrKey("hist-rand"), uint64(i))
		h := randHistory(r, length)
		vias := []string{"inproc"}
		if i%20 == 0 {
			vias = append(vias, "binary")
		}
		h.InPlace = i%2 == 1
		for _, via := range vias {
			h.Via = via
			if !wl.Always(0, i, func() any { return h }) {
				continue
			}
			vs, stats := execHistory(c, sb, h, c.Prop)
			res.Evaluations += int64(stats.Runs)
			res.Count("random_histories", 1)
			res.Count("random_histories_"+via, 1)
			res.Count("skips_observed", int64(stats.Skips))
			res.Count("executions_observed", int64(stats.Reruns))
			res.Count("skips_demanded", int64(stats.DemSkips))
			for d := range stats.Decisions {
				res.Seen("decision_classes", d)
			}
			for d := range stats.DiskStates {
				res.Seen("random_disk_states", fmt.Sprintf("%x", core.Hash64(d)))
			}
			nontrivial := false
			switch c.Prop {
			case "C01":
				nontrivial = stats.SkipAfterEdit && stats.Reruns > 0
			case "C02":
				nontrivial = stats.DemSkips > 0 && stats.MultiSkip
			case "C14":
				nontrivial = stats.ForcedThenUnforced
			}
			if nontrivial {
				res.Distinct(core.Hash64("rand", via, h.key()))
				res.Sample(map[string]any{"history": h.key(), "via": via, "skips": stats.Skips, "executions": stats.Reruns}, 2)
			}
			seen := map[string]bool{}
			for _, v := range vs {
				if seen[v.Clause] {
					continue
				}
				seen[v.Clause] = true
				hh := h
				if shrunk < 6 {
					shrunk++
					hh = shrinkHistory(c, sb, h, c.Prop, v.Clause)
					if nv, _ := execHistory(c, sb, hh, c.Prop); len(nv) > 0 {
						for _, x := range nv {
							if x.Clause == v.Clause {
								v = x
								break
							}
						}
					}
				}
				v.Key = hh.key()
				v.Case = core.JSON(hh)
				res.Violate(v)
			}
		}
	}
}

// histAmbient runs, through the binary, "build everything, then build everything with --force" (and the
// same without --force) on a few shapes under every ambient-environment variant: variables that look like
// switches (SPOK_FORCE=0 ...) or that CI systems set must not change what a run does.
func histAmbient(c *core.Ctx, sb *sandbox, res *core.ShardResult, wl *core.WLog) {
	wl.Block(1)
	n := 0
	// the other files of the cache directory go missing, the cache holds words that are no digests
	if c.Shard == 1%c.NShards {
		for _, shape := range []hshape{histShapes[0], histShapes[2], histShapes[4]} {
			var all []string
			for _, t := range shape.Tasks {
				all = append(all, t.Name)
			}
			h := hcase{Shape: shape, Via: "inproc", InPlace: true}
			for _, f := range shape.Files {
				h.Ops = append(h.Ops, hop{Kind: "write", File: f, Value: "v1"})
			}
			h.Ops = append(h.Ops, hop{Kind: "run", Tasks: all}, hop{Kind: "rmtag"}, hop{Kind: "run", Tasks: all}, hop{Kind: "run", Tasks: all[:1]},
				hop{Kind: "tamper"}, hop{Kind: "run", Tasks: all, Force: true}, hop{Kind: "run", Tasks: all}, hop{Kind: "tamper"}, hop{Kind: "run", Tasks: all}, hop{Kind: "run", Tasks: all})
			vs, stats := execHistory(c, sb, h, c.Prop)
			res.Evaluations += int64(stats.Runs)
			res.Count("histories_with_a_damaged_cache_directory", 1)
			res.Count("skips_observed", int64(stats.Skips))
			res.Count("executions_observed", int64(stats.Reruns))
			for _, v := range vs {
				v.Key = h.key()
				v.Case = core.JSON(h)
				res.Violate(v)
			}
		}
	}
	// a user-defined task named clean is an executed task like any other, also under --force
	if c.Shard == 0 {
		shape := hshape{Name: "user-defined-clean-task", Tasks: []htask{{Name: "A", Lits: []string{"a.txt"}, NCmd: 1, Outs: []string{"o.txt"}}, {Name: "clean", Lits: []string{"b.txt"}, Deps: []string{"A"}, NCmd: 1}}, Files: []string{"a.txt", "b.txt"}}
		for _, force := range []bool{true, false} {
			h := hcase{Shape: shape, Via: "binary"}
			h.Ops = []hop{{Kind: "write", File: "a.txt", Value: "v1"}, {Kind: "write", File: "b.txt", Value: "v1"},
				{Kind: "run", Tasks: []string{"clean"}, Clean: true}, {Kind: "run", Tasks: []string{"clean"}, Clean: true, Force: force},
				{Kind: "write", File: "b.txt", Value: "v2"}, {Kind: "run", Tasks: []string{"clean"}, Clean: true}, {Kind: "run", Tasks: []string{"clean"}, Clean: true},
				// the task with a declared output is still up to date after the user's clean task has run
				{Kind: "run", Tasks: []string{"A"}}, {Kind: "run", Tasks: []string{"A", "clean"}}}
			vs, stats := execHistory(c, sb, h, c.Prop)
			res.Evaluations += int64(stats.Runs)
			res.Count("histories_through_a_user_defined_clean_task", 1)
			res.Count("skips_observed", int64(stats.Skips))
			res.Count("executions_observed", int64(stats.Reruns))
			for _, v := range vs {
				v.Key = h.key()
				v.Case = core.JSON(h)
				res.Violate(v)
			}
		}
	}
	for si, shape := range []hshape{histShapes[0], histShapes[2], histShapes[4]} {
		for variant := 1; variant <= 3; variant++ {
			for _, force := range []bool{true, false} {
				n++
				if n%c.NShards != c.Shard {
					continue
				}
				var all []string
				for _, t := range shape.Tasks {
					all = append(all, t.Name)
				}
				h := hcase{Shape: shape, Via: "binary", Env: variant}
				for _, f := range shape.Files {
					h.Ops = append(h.Ops, hop{Kind: "write", File: f, Value: "v1"})
				}
				h.Ops = append(h.Ops, hop{Kind: "run", Tasks: all}, hop{Kind: "run", Tasks: all, Force: force}, hop{Kind: "run", Tasks: all})
				if !wl.Always(1, n, func() any { return h }) {
					continue
				}
				vs, stats := execHistory(c, sb, h, c.Prop)
				res.Evaluations += int64(stats.Runs)
				res.Count("ambient_environment_histories", 1)
				res.Count("skips_observed", int64(stats.Skips))
				res.Count("executions_observed", int64(stats.Reruns))
				for _, v := range vs {
					v.Key = h.key() + fmt.Sprintf(" | ambient environment variant %d", variant)
					v.Case = core.JSON(h)
					res.Violate(v)
				}
				_ = si
			}
		}
	}
}

// histAlts executes every short history in which the spokfile itself is edited and edited back:
// for a shape and one alternative version of it (a task's command text differs / the last task is
// gone / a task declares one dependency more), every sequence over {switch to the alternative,
// switch back, write a.txt=v2, write a.txt=v1, run the first task, run all tasks} that ends in a
// full run. C01 and C14 are judged of every task, C02 of the tasks whose declaration is the one of
// their last success.
func histAlts(c *core.Ctx, sb *sandbox, res *core.ShardResult, wl *core.WLog) {
	type combo struct {
		shape hshape
		alt   hshape
		kind  string
	}
	var combos []combo
	for _, base := range []hshape{histShapes[0], histShapes[2]} {
		cp := func() hshape {
			n := hshape{Name: base.Name, Files: base.Files, Links: base.Links, Stamp: base.Stamp}
			for _, t := range base.Tasks {
				nt := t
				nt.Lits = append([]string{}, t.Lits...)
				nt.Globs = append([]string{}, t.Globs...)
				n.Tasks = append(n.Tasks, nt)
			}
			return n
		}
		a := cp()
		a.Tasks[0].CmdTag = "v2"
		combos = append(combos, combo{base, a, "command-text"})
		g := cp()
		g.Tasks = g.Tasks[:len(g.Tasks)-1]
		combos = append(combos, combo{base, g, "task-gone"})
		d := cp()
		d.Tasks[0].Lits = append(d.Tasks[0].Lits, "b.txt")
		combos = append(combos, combo{base, d, "one-dependency-more"})
	}
	// the same dependencies listed in another order (on shapes whose tasks name several)
	twoGlobs := hshape{Name: "two-different-globs", Tasks: []htask{{Name: "A", Globs: []string{"*.txt", "sub/*.txt"}, Lits: []string{"a.txt"}, NCmd: 1}, {Name: "B", Lits: []string{"b.txt"}, NCmd: 1}}, Files: []string{"a.txt", "b.txt", "sub/s.txt"}}
	for _, base := range []hshape{histShapes[3], twoGlobs} {
		o := hshape{Name: base.Name, Files: base.Files, Links: base.Links}
		for _, t := range base.Tasks {
			nt := t
			nt.Lits, nt.Globs = nil, nil
			for i := len(t.Lits) - 1; i >= 0; i-- {
				nt.Lits = append(nt.Lits, t.Lits[i])
			}
			for i := len(t.Globs) - 1; i >= 0; i-- {
				nt.Globs = append(nt.Globs, t.Globs[i])
			}
			o.Tasks = append(o.Tasks, nt)
		}
		combos = append(combos, combo{base, o, "another-order"})
	}
	maxLen := c.Q(6, 7)
	wl.Block(0)
	count, mine := 0, 0
	for ci, cb := range combos {
		var all []string
		for _, t := range cb.shape.Tasks {
			all = append(all, t.Name)
		}
		alphabet := []hop{
			{Kind: "run", Tasks: all},
			{Kind: "run", Tasks: all[:1]},
			{Kind: "spokfile", Value: "0"},
			{Kind: "spokfile", Value: "-1"},
			{Kind: "write", File: "a.txt", Value: "v2"},
			{Kind: "write", File: "a.txt", Value: "v1"},
		}
		n := len(alphabet)
		prefix := []hop{{Kind: "write", File: "a.txt", Value: "v1"}, {Kind: "write", File: "b.txt", Value: "v1"}}
		for _, f := range cb.shape.Files {
			if f == "sub/s.txt" {
				prefix = append(prefix, hop{Kind: "write", File: f, Value: "v1"})
			}
		}
		prefix = append(prefix, hop{Kind: "run", Tasks: all})
		for length := 2; length <= maxLen; length++ {
			total := 1
			for i := 0; i < length-1; i++ {
				total *= n
			}
			for idx := 0; idx < total; idx++ {
				ops := make([]hop, length)
				x := idx
				for i := length - 2; i >= 0; i-- {
					ops[i] = alphabet[x%n]
					x /= n
				}
				ops[length-1] = alphabet[0]
				// prune: no operation twice in a row, switches only where they change something, at least one switch
				ok, inAlt, switched := true, false, false
				val := "v1"
				for i, o := range ops {
					if i > 0 && o.String() == ops[i-1].String() {
						ok = false
					}
					switch {
					case o.Kind == "spokfile" && o.Value == "0":
						ok = ok && !inAlt
						inAlt, switched = true, true
					case o.Kind == "spokfile":
						ok = ok && inAlt
						inAlt = false
					case o.Kind == "write":
						ok = ok && o.Value != val
						val = o.Value
					}
				}
				if !ok || !switched {
					continue
				}
				count++
				if count%c.NShards != c.Shard {
					continue
				}
				h := hcase{Shape: cb.shape, Alts: []hshape{cb.alt}, Ops: append(append([]hop{}, prefix...), ops...), Via: "inproc"}
				if mine++; mine%128 == 0 {
					wl.Tick()
				}
				if !wl.Begin(0, count, func() any { return h }) {
					continue
				}
				vs, stats := execHistory(c, sb, h, c.Prop)
				res.Evaluations += int64(stats.Runs)
				res.Count("spokfile_edit_sequences", 1)
				res.Count("spokfile_edit_sequences_"+cb.kind, 1)
				res.Count("skips_observed", int64(stats.Skips))
				res.Count("executions_observed", int64(stats.Reruns))
				res.Count("skips_demanded", int64(stats.DemSkips))
				if stats.Skips > 0 && stats.Reruns > 0 {
					res.Nontrivial++ // sequences are distinct by construction
				}
				seen := map[string]bool{}
				for _, v := range vs {
					if seen[v.Clause] || res.Counters["violations_total"] > 20 {
						continue
					}
					seen[v.Clause] = true
					v.Key = h.key()
					v.Case = core.JSON(h)
					res.Violate(v)
				}
			}
		}
		_ = ci
	}
}

// histInPlace executes every operation sequence up to a bounded length over a small alphabet on
// one shape *in place*: the project directory is created once per sequence and then only edited,
// so that directory and file modification times, emptied directories and whatever spok keeps in
// .spok have the history a real project has (the state search re-creates the directory for every
// transition and cannot see anything that depends on that).
var inPlaceShape = hshape{Name: "in-place", Tasks: []htask{{Name: "A", Globs: []string{"**/*.txt"}, NCmd: 1}, {Name: "B", Lits: []string{"a.txt"}, NCmd: 1}},
	Files: []string{"a.txt", "sub/s.txt", "sub/n.md"}}

func histInPlace(c *core.Ctx, sb *sandbox, res *core.ShardResult, wl *core.WLog) {
	alphabet := []hop{
		{Kind: "run", Tasks: []string{"A", "B"}},
		{Kind: "write", File: "a.txt", Value: "v1"},
		{Kind: "write", File: "sub/s.txt", Value: "v1"},
		{Kind: "write", File: "sub/n.md", Value: "v1"},
		{Kind: "delete", File: "sub/s.txt"},
		{Kind: "write", File: "a.txt", Value: "v2"},
		{Kind: "run", Tasks: []string{"A"}},
	}
	maxLen := c.Q(6, 7)
	n := len(alphabet)
	wl.Block(0)
	count, mine := 0, 0
	for length := 2; length <= maxLen; length++ {
		total := 1
		for i := 0; i < length-1; i++ {
			total *= n
		}
		for idx := 0; idx < total; idx++ {
			count++
			if count%c.NShards != c.Shard {
				continue
			}
			// the last operation is always the full run (shorter endings are prefixes of other sequences)
			ops := make([]hop, length)
			x := idx
			runs := 1
			for i := length - 2; i >= 0; i-- {
				ops[i] = alphabet[x%n]
				if ops[i].Kind == "run" {
					runs++
				}
				x /= n
			}
			ops[length-1] = alphabet[0]
			if runs < 2 {
				continue
			}
			h := hcase{Shape: inPlaceShape, Ops: ops, Via: "inproc", InPlace: true}
			if mine++; mine%128 == 0 {
				wl.Tick()
			}
			if !wl.Begin(0, count, func() any { return h }) {
				continue
			}
			vs, stats := execHistory(c, sb, h, c.Prop)
			res.Evaluations += int64(stats.Runs)
			res.Count("in_place_sequences", 1)
			res.Count("skips_observed", int64(stats.Skips))
			res.Count("executions_observed", int64(stats.Reruns))
			if stats.Skips > 0 && stats.Reruns > 0 {
				res.Nontrivial++ // sequences are distinct by construction
			}
			seen := map[string]bool{}
			for _, v := range vs {
				if seen[v.Clause] || res.Counters["violations_total"] > 20 {
					continue
				}
				seen[v.Clause] = true
				v.Key = h.key()
				v.Case = core.JSON(h)
				res.Violate(v)
			}
		}
	}
}

// ---------------------------------------------------------------------------
// Orchestrator

var histRules = map[string]string{
	"C01": "states = (content of every project file, bytes of .spok/cache.json or its absence, model of each task's last success); breadth-first search from the empty project over {write 'v1' / (thorough: 'v2') / the empty content to each file, delete it, rm -rf .spok, rm .spok/cache.json, chmod +x, run every non-empty task subset plain/forced, also with the first command of each closure task failing} on 18 spokfile shapes (a task with a non-ASCII name, a variable whose value differs on every invocation interpolated into the commands, two files with the same base name, a dependency rewritten by the task itself, a task named default run without task names through the binary, a dependency that may be a symbolic link, task names differing only in case, literal, glob, recursive glob, both, no-file task, shared file, task dependency, same glob with different literals, a file named twice, a generated input copied by a dependency, chain of three), each (state, run-op) executed once by the real code in-process (to a fixpoint unless the cap is reported), plus seeded random histories in a larger universe (3 values, the empty content and an LF/CRLF pair; every second history is applied in place so that modification times have a real history; 7 files incl. hidden and nested, random task shapes, in a third of the histories the spokfile itself is edited so that a task declares one dependency more or less), every 20th also through the race-built binary; plus every operation sequence of up to 6 (thorough 7) steps over {run A B, run A, write/delete three files} executed in place on one glob shape. evaluations = spok invocations judged; non-trivial = distinct (state, run-op) transitions in which a skip was observed, resp. random histories with a skip after an edit and a re-run; plus every spokfile-edit sequence of length <= 6 (thorough 7) on two shapes x three alternative versions (command text of a task differs / last task gone / one dependency more) over {switch, switch back, write a.txt=v2/v1, run first task, run all}; 21 shapes now (tasks named last/version, a declared output that another task names through a glob); random shapes declare outputs and use reserved-looking task names",
	"C02": "same search and histories as C01, judged in the converse direction (crash-free only); non-trivial = distinct transitions/histories in which the model demanded a skip inside a multi-task invocation",
	"C14": "same search and histories as C01 (any run may carry --force); non-trivial = distinct forced transitions that hit an up-to-date task, resp. random histories with such a forced run followed by an unforced run",
}

func histRun(c *core.Ctx) bool {
	var wg sync.WaitGroup
	var bfs, rnd, inp, alts *core.ShardResult
	var d1, d2, d3, d4 []core.Death
	wg.Add(4)
	go func() {
		defer wg.Done()
		inp, d3 = c.RunWorkers(core.WorkerSpec{Sub: "inplace", Binary: c.VcheckFast(), NShards: 6, Parallel: 6})
	}()
	go func() {
		defer wg.Done()
		alts, d4 = c.RunWorkers(core.WorkerSpec{Sub: "alts", Binary: c.VcheckFast(), NShards: 8, Parallel: 8})
	}()
	go func() {
		defer wg.Done()
		// the search is sequential cache logic: it runs on the plain build (3-5x more transitions per
		// second); the random histories and the binary sample stay on the race build
		bfs, d1 = c.RunWorkers(core.WorkerSpec{Sub: "bfs", Binary: c.VcheckFast(), NShards: len(histShapes), Parallel: len(histShapes)})
	}()
	go func() {
		defer wg.Done()
		rnd, d2 = c.RunWorkers(core.WorkerSpec{Sub: "rand", NShards: 8, Parallel: 8, AlwaysLogs: true})
	}()
	wg.Wait()
	total := core.NewShardResult()
	total.Merge(bfs)
	total.Merge(rnd)
	total.Merge(inp)
	total.Merge(alts)
	deaths := append(append(append(d1, d2...), d3...), d4...)
	// one report per (clause, shortest witness): sort by witness length
	sort.SliceStable(total.Violations, func(i, j int) bool { return len(total.Violations[i].Key) < len(total.Violations[j].Key) })
	perClause := map[string]int{}
	for _, v := range total.Violations {
		perClause[v.Clause]++
		if perClause[v.Clause] <= 4 {
			c.Report(v)
		}
	}
	for _, d := range deaths {
		fmt.Printf("INCONCLUSIVE: worker died (%s): %s\n", d.Kind, core.Trunc(d.StderrTail, 1500))
	}
	distinct := total.DistinctCount()
	cov := map[string]any{
		"evaluations":          total.Evaluations,
		"distinct_nontrivial":  distinct,
		"rule":                 histRules[c.Prop],
		"samples":              total.Samples,
		"counters":             total.Counters,
		"states":               total.Counters["bfs_states"],
		"transitions":          total.Counters["bfs_transitions"],
		"shapes_at_fixpoint":   total.SetValues("fixpoint_shapes"),
		"shapes_capped":        total.SetValues("capped_shapes"),
		"decision_classes":     total.SetValues("decision_classes"),
		"distinct_disk_states": total.Counters["bfs_disk_states"] + int64(len(total.SetValues("random_disk_states"))),
		"exhaustive":           false,
		"exhaustive_note":      "for the shapes listed under shapes_at_fixpoint every reachable state x every operation of the op alphabet was executed (histories of any length over that universe)",
		"worker_deaths":        len(deaths),
	}
	c.WriteEvidence("exploration", cov, []string{
		"ground truth for 'ran' and 'succeeded' is the side-effect log written by the commands themselves (one && chain per command), not spok's report",
		"state merging rests on: an invocation's behaviour depends only on the project directory (fresh SpokFile per invocation; the binary sample is a fresh process)",
		"undecided corner (DESIGN.md C02): a forced run of an up-to-date task that fails on exactly those inputs - both a later skip and a later re-run are accepted",
		"in-process invocations link the packages of /repo's working tree (race build) and use the real IntegratedRunner; commands are printf/test only",
	})
	if total.Evaluations < 3000 || distinct < 50 || total.Counters["skips_observed"] == 0 || total.Counters["random_histories_binary"] == 0 {
		fmt.Printf("INCONCLUSIVE: coverage floor missed (evaluations=%d distinct=%d)\n", total.Evaluations, distinct)
		return false
	}
	return len(deaths) == 0
}

func histReplay(c *core.Ctx, v core.Violation) []core.Violation {
	var h hcase
	if err := json.Unmarshal(v.Case, &h); err != nil {
		core.Fatal("replay: %v", err)
	}
	sb := newSandbox(c.TempDir("histr-"))
	defer os.RemoveAll(sb.Root)
	vs, _ := execHistory(c, sb, h, c.Prop)
	for i := range vs {
		vs[i].Case = v.Case
		vs[i].Key = v.Key
	}
	return vs
}
