package props

// C17: spokfile discovery terminates and finds the nearest enclosing spokfile.

import (
	"encoding/json"
	"fmt"
	"os"
	"path/filepath"
	"strings"
	"time"

	"verif/harness/core"

	"github.com/FollowTheProcess/spok/file"
	"github.com/FollowTheProcess/spok/verifhook"
)

func init() {
	register("C17", &Engine{Run: c17Run, Worker: c17Worker, Replay: c17Replay})
}

// level configurations
var c17Configs = []string{"nothing", "before", "after", "both", "spokfile", "spokfile+others", "spokdir", "near-miss-names", "many-entries+spokfile", "dot-git"}

type c17case struct {
	Levels []int  `json:"levels"`        // config index per level, top first
	Start  int    `json:"start"`         // level index
	Stop   string `json:"stop"`          // "L<k>" | "sibling" | "below" | "base"
	Via    string `json:"via,omitempty"` // "alias": start and stop are given through a symlink to the chain's base; "slash": stop has a trailing slash
}

func (cs c17case) key() string {
	return fmt.Sprintf("%v/%d/%s/%s", cs.Levels, cs.Start, cs.Stop, cs.Via)
}

func c17Build(base string, levels []int) []string {
	dirs := make([]string, len(levels))
	cur := base
	for i, cfg := range levels {
		name := fmt.Sprintf("d%d", i)
		if i%4 == 2 {
			name = fmt.Sprintf("..d%d", i) // a name that begins like the parent directory's
		}
		if i%2 == 1 {
			// a name that is also a glob: "d[1]x" must not be taken for its sibling "d1x"
			name = fmt.Sprintf("d[%d]x", i)
			decoy := filepath.Join(cur, fmt.Sprintf("d%dx", i))
			_ = os.MkdirAll(decoy, 0o755)
			_ = os.WriteFile(filepath.Join(decoy, "spokfile"), []byte("# decoy\ntask decoy() {}\n"), 0o644)
		}
		cur = filepath.Join(cur, name)
		dirs[i] = cur
		_ = os.MkdirAll(cur, 0o755)
		w := func(name, content string) {
			_ = os.WriteFile(filepath.Join(cur, name), []byte(content), 0o644)
			if name == "spokfile" {
				// whatever the umask of whoever created it: group/world writable, private, read-only, executable
				_ = os.Chmod(filepath.Join(cur, name), []os.FileMode{0o644, 0o664, 0o666, 0o600, 0o444, 0o755, 0o640}[(i+cfg)%7])
			}
		}
		sf := fmt.Sprintf("# level %d\ntask lvl%s() {}\n", i, strings.Repeat("x", i+1))
		switch c17Configs[cfg] {
		case "before":
			w("aaa", "")
			w("Makefile", "")
		case "after":
			w("zzz", "")
		case "both":
			w("aaa", "")
			w("Makefile", "")
			w("zzz", "")
		case "spokfile":
			w("spokfile", sf)
		case "spokfile+others":
			w("aaa", "")
			w("Makefile", "")
			w("spokfile", sf)
			w("zzz", "")
		case "spokdir":
			_ = os.MkdirAll(filepath.Join(cur, "spokfile"), 0o755)
			w("aaa", "")
		case "many-entries+spokfile":
			for k := 0; k < 40; k++ {
				w(fmt.Sprintf("entry%03d", k), "")
			}
			w("spokfile", sf)
			w("zzz", "")
		case "dot-git":
			_ = os.MkdirAll(filepath.Join(cur, ".git"), 0o755)
			w(".git/config", "")
			w("README", "")
		case "near-miss-names":
			w("Spokfile", sf)
			w("spokfile.bak", sf)
			w("aspokfile", sf)
			w(".spokfile", sf)
		}
	}
	_ = os.MkdirAll(filepath.Join(base, "sibling"), 0o755)
	_ = os.MkdirAll(filepath.Join(cur, "below"), 0o755) // a directory below the deepest level
	return dirs
}

func hasSpokfile(dir string) bool {
	st, err := os.Lstat(filepath.Join(dir, "spokfile"))
	return err == nil && st.Mode().IsRegular()
}

func isAncestorOrSelf(anc, p string) bool {
	anc, p = filepath.Clean(anc), filepath.Clean(p)
	if anc == p {
		return true
	}
	if anc == "/" {
		return true
	}
	return strings.HasPrefix(p, anc+"/")
}

// c17Expect computes the admissible outcomes: a set of acceptable results
// ("" = not found) and whether the case is the unambiguous one.
func c17Expect(start, stop string) (accept map[string]bool, unambiguous bool) {
	accept = map[string]bool{}
	var chain []string
	for d := filepath.Clean(start); ; d = filepath.Dir(d) {
		chain = append(chain, d)
		if d == filepath.Dir(d) {
			break
		}
	}
	nearest := func(cands []string) string {
		for _, d := range cands {
			if hasSpokfile(d) {
				return filepath.Join(d, "spokfile")
			}
		}
		return ""
	}
	if isAncestorOrSelf(stop, start) {
		var cands []string
		for _, d := range chain {
			cands = append(cands, d)
			if d == filepath.Clean(stop) {
				break
			}
		}
		accept[nearest(cands)] = true
		return accept, true
	}
	// reading A: directories at or above start that are not strictly above stop
	var a []string
	for _, d := range chain {
		if isAncestorOrSelf(d, stop) && d != filepath.Clean(stop) {
			break
		}
		a = append(a, d)
	}
	accept[nearest(a)] = true
	// reading B: walk upwards until stop is met (never), i.e. up to the root
	accept[nearest(chain)] = true
	return accept, false
}

type stepBound struct{ dirs []string }

type countingLogger struct {
	iters int
	bound int
	dirs  []string
}

func (l *countingLogger) Sync() error { return nil }
func (l *countingLogger) Debug(format string, args ...any) {
	if strings.HasPrefix(format, "Looking in") {
		l.iters++
		if len(args) > 0 {
			l.dirs = append(l.dirs, fmt.Sprint(args[0]))
		}
		if l.iters > l.bound {
			panic(stepBound{l.dirs})
		}
	}
}

// c17Call runs file.Find under the step bound. The bound is enforced from inside
// the loop (the injected logger and the find.iter hook are both called once per
// iteration), so a walk that would never end is stopped after bound+1 iterations.
func c17Call(start, stop string) (path string, err error, iters int, visited []string, exceeded bool) {
	bound := len(strings.Split(strings.Trim(filepath.Clean(start), "/"), "/")) + 1
	if filepath.Clean(start) == "/" {
		bound = 1
	}
	lg := &countingLogger{bound: bound}
	hookIters := 0
	verifhook.SetHandler(func(name string, args []string) {
		if name == "find.iter" {
			hookIters++
			if len(args) > 0 {
				visited = append(visited, args[0])
			}
			if hookIters > bound {
				panic(stepBound{visited})
			}
		}
	})
	defer verifhook.SetHandler(nil)
	defer func() {
		if r := recover(); r != nil {
			if _, ok := r.(stepBound); ok {
				exceeded = true
				iters = bound + 1
				return
			}
			panic(r)
		}
	}()
	path, err = file.Find(lg, start, stop)
	iters = hookIters
	if lg.iters > iters {
		iters = lg.iters
	}
	return
}

func c17Judge(base string, dirs []string, cs c17case, res *core.ShardResult) (vs []core.Violation) {
	start := dirs[cs.Start]
	var stop string
	switch {
	case cs.Stop == "sibling":
		stop = filepath.Join(base, "sibling")
	case cs.Stop == "below":
		if cs.Start+1 < len(dirs) {
			stop = dirs[cs.Start+1]
		} else {
			stop = filepath.Join(dirs[len(dirs)-1], "below")
		}
	case cs.Stop == "base":
		stop = base
	default:
		var k int
		fmt.Sscanf(cs.Stop, "L%d", &k)
		stop = dirs[k]
	}
	bad := func(clause, format string, args ...any) {
		vs = append(vs, core.Violation{Property: "C17", Clause: clause, Key: cs.key(),
			Detail: fmt.Sprintf(format, args...) + fmt.Sprintf(" [levels %v start=%s stop=%s]", cfgNames(cs.Levels), rel(base, start), rel(base, stop))})
	}
	res.Evaluations++
	callStop := stop
	if cs.Via == "slash" {
		callStop = stop + "/" // the same directory, spelled as $HOME sometimes is
	}
	got, err, iters, visited, exceeded := c17Call(start, callStop)
	if exceeded {
		bad("terminates", "discovery did not stop within %d iterations (path depth + 1); directories visited: %v", iters-1, tailStr(visited, 6))
		return
	}
	// the walk only ever moves upwards from start
	for i, d := range visited {
		if !isAncestorOrSelf(d, start) || (i > 0 && filepath.Dir(visited[i-1]) != d) {
			bad("walks-upwards", "visited %v", visited)
			return
		}
	}
	accept, unambiguous := c17Expect(start, stop)
	result := ""
	if err == nil {
		result = got
		st, serr := os.Lstat(got)
		if serr != nil || !st.Mode().IsRegular() || filepath.Base(got) != "spokfile" || !filepath.IsAbs(got) {
			bad("regular-file-named-spokfile", "returned %q which is not a regular file named spokfile", got)
			return
		}
	}
	if !accept[result] {
		clause := "nearest-enclosing"
		if !unambiguous {
			clause = "nearest-enclosing-start-outside-stop"
		}
		var want []string
		for k := range accept {
			want = append(want, rel(base, k))
		}
		bad(clause, "returned %q (err %v), acceptable: %q", rel(base, result), err, want)
		return
	}
	res.Count("iterations", int64(iters))
	if unambiguous {
		res.Count("cases_start_at_or_below_stop", 1)
	} else {
		res.Count("cases_start_outside_stop", 1)
	}
	if result == "" {
		res.Count("not_found_results", 1)
	} else {
		res.Count("found_results", 1)
	}
	res.Nontrivial++ // every (chain, start, stop) triple is distinct by construction
	if result != "" && cs.Start >= 2 {
		res.Sample(map[string]any{"levels": cfgNames(cs.Levels), "start": rel(base, start), "stop": rel(base, stop), "found": rel(base, result), "iterations": iters}, 3)
	}
	return
}

func cfgNames(levels []int) []string {
	var out []string
	for _, l := range levels {
		out = append(out, c17Configs[l])
	}
	return out
}

func rel(base, p string) string {
	if p == "" {
		return ""
	}
	if r, err := filepath.Rel(base, p); err == nil && !strings.HasPrefix(r, "..") {
		return r
	}
	return p
}

func tailStr(xs []string, n int) []string {
	if len(xs) > n {
		return xs[len(xs)-n:]
	}
	return xs
}

func c17Depths(c *core.Ctx) []int {
	if c.Thorough() {
		return []int{1, 2, 3, 4}
	}
	return []int{1, 2, 3}
}

// c17Chains: every chain up to the tier's depth, plus a seeded sample one level deeper.
func c17Chains(c *core.Ctx) [][]int {
	var out [][]int
	n := len(c17Configs)
	for _, d := range c17Depths(c) {
		total := 1
		for i := 0; i < d; i++ {
			total *= n
		}
		for idx := 0; idx < total; idx++ {
			lv := make([]int, d)
			x := idx
			for i := d - 1; i >= 0; i-- {
				lv[i] = x % n
				x /= n
			}
			out = append(out, lv)
		}
	}
	// a few very deep chains (a working directory far below the project root)
	for _, d := range []int{33, 40, 70} {
		for _, top := range []int{4, 5, 0} { // spokfile, spokfile+others, nothing at the top level
			lv := make([]int, d)
			lv[0] = top
			for i := 1; i < d; i++ {
				lv[i] = []int{0, 0, 1, 0, 2, 0}[(i+d)%6]
			}
			out = append(out, lv)
		}
	}
	deeper := c17Depths(c)[len(c17Depths(c))-1] + 1
	r := c.Rng(core.StrKey("c17-deeper"))
	for k := 0; k < c.Q(1500, 12000); k++ {
		lv := make([]int, deeper)
		for i := range lv {
			lv[i] = r.Intn(n)
		}
		out = append(out, lv)
	}
	return out
}

func c17Stops(depth int) []string {
	var out []string
	for k := 0; k < depth; k++ {
		out = append(out, fmt.Sprintf("L%d", k))
	}
	return append(out, "sibling", "below", "base")
}

func c17Worker(c *core.Ctx) {
	res := core.NewShardResult()
	wl := core.OpenWLog()
	chains := c17Chains(c)
	// deep enough that the real ancestors (/dev/shm, /dev, /) hold no spokfile
	root := c.TempDir("c17-")
	defer os.RemoveAll(root)
	for ci, lv := range chains {
		if ci%c.NShards != c.Shard || ci < wl.Start {
			continue
		}
		wl.Block(ci)
		base := filepath.Join(root, fmt.Sprintf("c%d", ci), "home")
		dirs := c17Build(base, lv)
		// the same chain reached through a symbolic link (a linked home directory): the search is
		// lexical, start and stop are both given through the link
		alias := filepath.Join(root, fmt.Sprintf("c%d", ci), "alias")
		_ = os.Symlink(base, alias)
		adirs := make([]string, len(dirs))
		for k, d := range dirs {
			adirs[k] = alias + strings.TrimPrefix(d, base)
		}
		i := 0
		for start := range lv {
			if len(lv) > 8 && start != len(lv)-1 && start != len(lv)/2 && start != 31 && start != 32 && start != 1 {
				continue // deep chains: a few start levels only
			}
			for _, stop := range c17Stops(len(lv)) {
				if len(lv) > 8 && stop != "L0" && stop != "L1" && stop != "base" && stop != "sibling" && stop != fmt.Sprintf("L%d", start) {
					continue
				}
				for _, via := range []string{"", "alias", "slash"} {
					if via == "slash" && (start+len(stop))%3 != 0 {
						continue // the stop directory spelled with a trailing slash: a third of the cases
					}
					cs := c17case{Levels: lv, Start: start, Stop: stop, Via: via}
					if wl.Begin(ci, i, func() any { return cs }) {
						b, ds := base, dirs
						if via == "alias" {
							b, ds = alias, adirs
						}
						for _, v := range c17Judge(b, ds, cs, res) {
							v.Case = core.JSON(cs)
							res.Violate(v)
						}
					}
					i++
				}
			}
		}
		_ = os.RemoveAll(filepath.Join(root, fmt.Sprintf("c%d", ci)))
		res.Count("chains", 1)
	}
	core.WriteResult(res)
}

func c17Run(c *core.Ctx) bool {
	res, deaths := c.RunWorkers(core.WorkerSpec{Sub: "find", NShards: 32})
	bin := c17Binary(c)
	res.Merge(bin)
	reportAll(c, res)
	for _, d := range deaths {
		if strings.HasPrefix(d.Kind, "spin") || strings.HasPrefix(d.Kind, "deadlock") {
			c.Report(deathViolation("C17", d, "terminates"))
		} else {
			fmt.Printf("INCONCLUSIVE: worker died (%s): %s\n", d.Kind, core.Trunc(d.StderrTail, 1500))
		}
	}
	chains := c17Chains(c)
	distinct := res.DistinctCount()
	cov := map[string]any{
		"evaluations":         res.Evaluations,
		"distinct_nontrivial": distinct,
		"rule":                fmt.Sprintf("every directory chain of depth %v (plus a seeded sample one level deeper and nine chains of depth 33-70) where each level independently holds one of %v (%d chains) (spokfiles carry the modes 0644/0664/0666/0600/0444/0755/0640 in turn) x every start level x stop in {each level, an unrelated sibling directory, a directory below start, the directory above the chain}, each both directly and through a symbolic link to the chain's base; file.Find is called in-process with a counting logger and the find.iter hook enforcing the step bound (iterations <= path components of start + 1); a sample also runs the race-built binary (--show, HOME = stop, cwd = start). non-trivial = every (chain, start, stop) triple (distinct by construction) whose result was compared with the reference", c17Depths(c), c17Configs, len(chains)),
		"samples":             res.Samples,
		"counters":            res.Counters,
		"chains":              res.Counters["chains"],
		"exhaustive":          false,
		"exhaustive_note":     "all chains up to the listed depths x all start/stop choices are enumerated; the deeper level is a seeded sample",
		"worker_deaths":       len(deaths),
	}
	c.WriteEvidence("exploration", cov, []string{
		"termination is decided as a step bound enforced from inside the loop (logger call and hook, once per iteration), not by wall-clock",
		"when start is not at or below stop both defensible readings of 'not above the stop directory' are accepted (DESIGN.md C17); termination and 'a regular file named spokfile' are still demanded",
		"no spokfile exists in the real ancestors of the sandbox (/dev/shm or $TMPDIR, /)",
	})
	if res.Counters["chains"] < int64(len(chains)) || res.Counters["binary_cases"] == 0 {
		fmt.Println("INCONCLUSIVE: coverage floor missed")
		return false
	}
	return len(deaths) == 0 && res.Inconclusive == 0
}

// c17Binary drives the CLI: cwd = start, HOME = stop.
func c17Binary(c *core.Ctx) *core.ShardResult {
	res := core.NewShardResult()
	r := c.Rng(core.StrKey("c17-binary"))
	n := c.Q(200, 2000)
	var cases []c17case
	for i := 0; i < n; i++ {
		d := r.Range(1, 4)
		lv := make([]int, d)
		for k := range lv {
			lv[k] = r.Intn(len(c17Configs))
		}
		cases = append(cases, c17case{Levels: lv, Start: r.Intn(d), Stop: core.Pick(r, c17Stops(d))})
	}
	out := make([]*core.ShardResult, len(cases))
	stopAll := make(chan struct{})
	stopped := false
	core.ParallelFor(len(cases), c.NCPU, func(i int) {
		out[i] = core.NewShardResult()
		select {
		case <-stopAll:
			return
		default:
		}
		vs := c17BinaryCase(c, cases[i], out[i])
		for _, v := range vs {
			v.Case = core.JSON(cases[i])
			v.Engine = "binary"
			out[i].Violate(v)
			if v.Clause == "terminates" {
				repOnce.Do(func() { stopped = true; close(stopAll) })
			}
		}
	})
	_ = stopped
	for _, o := range out {
		res.Merge(o)
	}
	return res
}

func c17BinaryCase(c *core.Ctx, cs c17case, res *core.ShardResult) (vs []core.Violation) {
	root := c.TempDir("c17b-")
	defer os.RemoveAll(root)
	base := filepath.Join(root, "x", "home")
	dirs := c17Build(base, cs.Levels)
	start := dirs[cs.Start]
	var stop string
	switch {
	case cs.Stop == "sibling":
		stop = filepath.Join(base, "sibling")
	case cs.Stop == "below":
		if cs.Start+1 < len(dirs) {
			stop = dirs[cs.Start+1]
		} else {
			stop = filepath.Join(dirs[len(dirs)-1], "below")
		}
	case cs.Stop == "base":
		stop = base
	default:
		var k int
		fmt.Sscanf(cs.Stop, "L%d", &k)
		stop = dirs[k]
	}
	inv := core.RunSpok(core.SpokOpts{Bin: c.SpokRace(), Dir: start, Home: stop, Args: []string{"--show"}, Timeout: 45 * time.Second})
	res.Evaluations++
	res.Count("binary_cases", 1)
	bad := func(clause, format string, args ...any) {
		vs = append(vs, core.Violation{Property: "C17", Clause: clause, Key: "binary:" + cs.key(),
			Detail: fmt.Sprintf(format, args...) + fmt.Sprintf(" [levels %v start=%s stop=%s exit=%d stderr=%s]", cfgNames(cs.Levels), rel(base, start), rel(base, stop), inv.Exit, core.Trunc(inv.Stderr, 300)),
			Events: map[string]any{"invocation": inv}})
	}
	if inv.TimedOut {
		if inv.CPUSec >= 20 {
			bad("terminates", "spok --show consumed %.0f CPU-seconds without finishing", inv.CPUSec)
		} else {
			res.Inconclusive++
		}
		return
	}
	if inv.Crashed() || inv.Race {
		bad("binary-no-crash", "spok crashed or raced")
		return
	}
	accept, _ := c17Expect(start, stop)
	result := ""
	if inv.Exit == 0 {
		const marker = "Tasks defined in "
		if i := strings.Index(inv.Stdout, marker); i >= 0 {
			line := inv.Stdout[i+len(marker):]
			if j := strings.Index(line, ":\n"); j >= 0 {
				result = line[:j]
			}
		}
		if result == "" {
			bad("binary-output", "exit 0 but no 'Tasks defined in' line: %q", core.Trunc(inv.Stdout, 200))
			return
		}
	} else if !strings.Contains(inv.Stderr, "No spokfile found") {
		bad("binary-output", "failed with something other than 'No spokfile found'")
		return
	}
	if !accept[result] {
		var want []string
		for k := range accept {
			want = append(want, rel(base, k))
		}
		bad("nearest-enclosing", "binary used %q, acceptable %q", rel(base, result), want)
		return
	}
	res.Distinct(core.Hash64("binary", cs.key()))
	return
}

func c17Replay(c *core.Ctx, v core.Violation) []core.Violation {
	var cs c17case
	if err := json.Unmarshal(v.Case, &cs); err != nil {
		core.Fatal("replay: %v", err)
	}
	res := core.NewShardResult()
	var vs []core.Violation
	if v.Engine == "binary" {
		vs = c17BinaryCase(c, cs, res)
	} else {
		root := c.TempDir("c17r-")
		defer os.RemoveAll(root)
		base := filepath.Join(root, "x", "home")
		dirs := c17Build(base, cs.Levels)
		if cs.Via == "alias" {
			alias := filepath.Join(root, "x", "alias")
			_ = os.Symlink(base, alias)
			for k, d := range dirs {
				dirs[k] = alias + strings.TrimPrefix(d, base)
			}
			base = alias
		}
		vs = c17Judge(base, dirs, cs, res)
	}
	for i := range vs {
		vs[i].Case = v.Case
		vs[i].Engine = v.Engine
	}
	return vs
}
