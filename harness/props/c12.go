package props

// C12: --clean removes exactly the declared outputs and the cache, never the project.
// Monitors: full before/after snapshot of the sandbox and the strace log of every
// path-mutating system call of the invocation.

import (
	"encoding/json"
	"fmt"
	"os"
	"path/filepath"
	"sort"
	"strings"

	"verif/harness/core"
	"verif/harness/ref"
)

func init() {
	register("C12", &Engine{Run: c12Run, Replay: c12Replay})
}

type c12out struct {
	Kind  string `json:"kind"` // literal | var | glob
	Text  string `json:"text"` // literal path, glob pattern or variable name
	Value string `json:"value,omitempty"`
	Join  bool   `json:"join,omitempty"` // variable defined through join(Value): absolute, against the invocation's cwd
}

type c12case struct {
	Files     []string    `json:"files"` // relative to the project; trailing "/" = directory
	Outs      []c12out    `json:"outs"`
	CleanTask bool        `json:"clean_task"`
	Nested    bool        `json:"nested"`                            // invoked from a nested directory
	HasCache  bool        `json:"has_cache"`                         // a .spok directory exists before
	Links     [][2]string `json:"links,omitempty"`                   // symlinks: path relative to the project -> target
	ViaLink   bool        `json:"via_link,omitempty"`                // the project (and $HOME) is reached through a symlinked directory
	LogicPWD  bool        `json:"logical_pwd,omitempty"`             // $PWD holds the working directory as the user spelled it (what a shell does)
	VarsLast  bool        `json:"variables_declared_last,omitempty"` // the variables that name outputs are declared below the tasks
	ProjName  string      `json:"project_directory,omitempty"`       // name of the project directory ("" = proj)
	Prior     []string    `json:"prior_outputs,omitempty"`           // an earlier version of the spokfile declared these outputs and its tasks were run; then the spokfile was edited
}

func (k c12case) key() string { b, _ := json.Marshal(k); return string(b) }

var c12FilePool = []string{"a.txt", "gen.txt", "x.o", "y.o", "lib/z.o", "build/out.bin", "build/sub/deep.bin", "dist/", "keep/me.txt", "src/main.c", "src/gen/auto.c", ".hidden.o", "out/f", "nested/dir/", "notes.md", "bin/tool", "report[1].txt", "report1.txt", "out-v?.dat", "out-v1.dat", "gen\\report.txt", "gen/report.txt", "zzabs_7f3a.out", "v1.0..v1.1.tar", "spok", "spokfil", "spokfile.bak", "s/", "vendor/Outer$Inner.class", "vendor/Outer.class", "$HOME.txt", "~/x.o", "a b.txt", "%s.o"}
var c12Literals = []string{"gen.txt", "build", "build/sub", "missing.out", "dist", "x.o", "bin/tool", "out", "src/gen", "report[1].txt", "out-v?.dat", "latest", "assets", "cur", "gen\\report.txt", "/zzabs_7f3a.out", "@HOME@/above.txt", "v1.0..v1.1.tar", "spok", "spokfil", "spokfile.bak", "s", "vendor/Outer$Inner.class", "$HOME.txt", "~", "a b.txt", "%s.o", "${OUT}"}
var c12LinkPool = [][2]string{{"latest", "keep/me.txt"}, {"assets", "../sibling"}, {"cur", "build"}, {"lib/link.o", "../x.o"}}
var c12Globs = []string{"*.o", "**/*.o", "build/*", "nomatch/*.zzz", "*", "src/**/*.c", "*.{o,bin}", "**/*.bin", "lib/*", "*.tar"}
var c12Dangerous = []string{"", ".", "..", "./", "build/..", "spokfile", "../proj", "./spokfile", "build/../..", "build/../", "./.", "src/./..", "@PROJ@", "@PROJ@/", "@PROJ@/spokfile", "@PROJ@/.."}
var c12VarNames = []string{"OUT", "BIN_DIR", "DIST", "EMPTY", "GEN"}

func c12Gen(r *core.Rng) c12case {
	var k c12case
	for _, f := range c12FilePool {
		if r.Chance(60) {
			k.Files = append(k.Files, f)
		}
	}
	for _, l := range c12LinkPool {
		if r.Chance(35) {
			k.Links = append(k.Links, l)
		}
	}
	k.Nested = r.Chance(25)
	if k.Nested {
		has := false
		for _, f := range k.Files {
			if f == "nested/dir/" {
				has = true
			}
		}
		if !has {
			k.Files = append(k.Files, "nested/dir/")
		}
	}
	k.CleanTask = r.Chance(15)
	k.ViaLink = r.Chance(20)
	k.LogicPWD = r.Chance(50)
	k.VarsLast = r.Chance(25)
	if r.Chance(25) {
		k.ProjName = core.Pick(r, []string{"..proj", "proj..", "...", "-proj", "pro j", "proj[1]", "~proj"})
	}
	if r.Chance(15) {
		for _, l := range []string{"gen.txt", "build", "dist", "x.o", "bin/tool", "out", "keep", "src", "notes.md", "a.txt"} {
			if r.Chance(30) {
				k.Prior = append(k.Prior, l)
			}
		}
	}
	k.HasCache = r.Chance(60)
	nv := 0
	n := r.Range(0, 5)
	dangerous := r.Chance(30) || ((k.ViaLink || k.ProjName != "") && r.Chance(60))
	for i := 0; i < n; i++ {
		switch r.Intn(3) {
		case 0:
			t := core.Pick(r, c12Literals)
			if dangerous && r.Chance(40) {
				t = core.Pick(r, c12Dangerous[:12])
			}
			if t == "../proj" && k.ProjName != "" {
				t = "../" + k.ProjName
			}
			k.Outs = append(k.Outs, c12out{Kind: "literal", Text: t})
		case 1:
			if nv >= len(c12VarNames) {
				continue
			}
			v := core.Pick(r, c12Literals)
			if r.Chance(15) {
				v = "@PROJ@/" + v // an absolute path inside the project
			}
			if dangerous && r.Chance(50) {
				v = core.Pick(r, c12Dangerous)
			}
			if v == "../proj" && k.ProjName != "" {
				v = "../" + k.ProjName
			}
			o := c12out{Kind: "var", Text: c12VarNames[nv], Value: v, Join: r.Chance(40)}
			nv++
			k.Outs = append(k.Outs, o)
		default:
			k.Outs = append(k.Outs, c12out{Kind: "glob", Text: core.Pick(r, c12Globs)})
		}
	}
	return k
}

func (k c12case) text(proj string) string {
	var b, vars strings.Builder
	home := filepath.Dir(proj)
	for _, o := range k.Outs {
		if o.Kind == "var" {
			if o.Join {
				fmt.Fprintf(&vars, "%s := join(\"%s\")\n", o.Text, strings.ReplaceAll(o.Value, "@PROJ@", proj))
			} else {
				fmt.Fprintf(&vars, "%s := \"%s\"\n", o.Text, strings.ReplaceAll(o.Value, "@PROJ@", proj))
			}
		}
	}
	if !k.VarsLast {
		b.WriteString(vars.String())
	}
	b.WriteString("\n")
	// spread the outputs over two tasks
	var o1, o2 []string
	for i, o := range k.Outs {
		s := `"` + strings.ReplaceAll(o.Text, "@HOME@", home) + `"`
		if o.Kind == "var" {
			s = o.Text
		}
		if i%2 == 0 {
			o1 = append(o1, s)
		} else {
			o2 = append(o2, s)
		}
	}
	outs := func(xs []string) string {
		switch len(xs) {
		case 0:
			return ""
		case 1:
			return " -> " + xs[0]
		}
		return " -> (" + strings.Join(xs, ", ") + ")"
	}
	// glob *dependencies* are inputs, never outputs: what they match must survive --clean
	fmt.Fprintf(&b, "task build(\"a.txt\", \"src/**/*.c\", \"keep/*\")%s {\n    true\n}\n\n", outs(o1))
	fmt.Fprintf(&b, "task other(\"*.md\", \"lib/*\")%s {\n    true\n}\n\n", outs(o2))
	if k.CleanTask && len(k.Files)%3 == 0 {
		// a clean task that only gathers other tasks: still "a task named clean"
		b.WriteString("task marker() {\n    printf cleaned > cleaned.marker\n}\n\ntask clean(marker) {}\n")
	} else if k.CleanTask {
		b.WriteString("task clean() {\n    printf cleaned > cleaned.marker\n}\n")
	}
	if k.VarsLast {
		b.WriteString("\n" + vars.String())
	}
	return b.String()
}

type c12obs struct {
	Inv    core.Invocation `json:"invocation"`
	Diff   core.Diff       `json:"diff"`
	Events []core.FsEvent  `json:"events"`
}

func isUnder(p, dir string) bool {
	p, dir = filepath.Clean(p), filepath.Clean(dir)
	return p == dir || strings.HasPrefix(p, dir+"/") || dir == "/"
}

func c12Judge(c *core.Ctx, k c12case, res *core.ShardResult) (vs []core.Violation) {
	root := c.TempDir("c12-")
	defer func() { _ = os.RemoveAll(root) }()
	// deep enough that "above the project" is still scratch space
	home := filepath.Join(root, "s1", "s2", "home")
	pname := "proj"
	if k.ProjName != "" {
		pname = k.ProjName
		res.Seen("project_directory_names", pname)
	}
	proj := filepath.Join(home, pname)
	_ = os.MkdirAll(proj, 0o755)
	_ = os.MkdirAll(filepath.Join(home, "sibling"), 0o755)
	_ = os.WriteFile(filepath.Join(home, "sibling", "keep.txt"), []byte("sibling"), 0o644)
	_ = os.WriteFile(filepath.Join(home, "above.txt"), []byte("above"), 0o644)
	_ = os.WriteFile(filepath.Join(root, "s1", "top.txt"), []byte("top"), 0o644)
	files := map[string]string{}
	for _, f := range k.Files {
		files[f] = "content of " + f
	}
	_ = core.WriteFiles(proj, files)
	for _, l := range k.Links {
		full := filepath.Join(proj, l[0])
		_ = os.MkdirAll(filepath.Dir(full), 0o755)
		_ = os.Symlink(l[1], full)
	}
	// how the user spells the project: through a symlinked directory or directly
	shome, sproj := home, proj
	if k.ViaLink {
		shome = filepath.Join(root, "s1", "s2", "lnk")
		_ = os.Symlink("home", shome)
		sproj = filepath.Join(shome, pname)
	}
	canon := func(p string) string { // a spelled absolute path -> the real one
		if k.ViaLink && isUnder(p, shome) && filepath.Clean(p) != shome { // the link itself stays what it is
			return filepath.Join(home, strings.TrimPrefix(filepath.Clean(p), shome))
		}
		return filepath.Clean(p)
	}
	text := k.text(sproj)
	_ = os.WriteFile(filepath.Join(proj, "spokfile"), []byte(text), 0o644)
	if len(k.Prior) > 0 {
		// history: the project was built with an earlier spokfile whose tasks declared other outputs
		// (all of them exist); what that version declared means nothing to --clean now
		prior := "task old() -> (\"" + strings.Join(k.Prior, "\", \"") + "\", \"never-existed.out\") {\n    true\n}\n\ntask older(\"*.txt\") -> \"*.md\" {\n    true\n}\n"
		_ = os.WriteFile(filepath.Join(proj, "spokfile"), []byte(prior), 0o644)
		pinv := core.RunSpok(core.SpokOpts{Bin: c.SpokRace(), Dir: sproj, Home: shome, Args: []string{"old", "older"}})
		if pinv.Exit != 0 {
			core.Fatal("c12: the prior run failed: %s", core.Trunc(pinv.Stderr, 400))
		}
		_ = os.WriteFile(filepath.Join(proj, "spokfile"), []byte(text), 0o644)
		res.Count("cases_with_an_earlier_spokfile_version", 1)
	} else if k.HasCache {
		_ = core.WriteFiles(proj, map[string]string{".spok/cache.json": `{"build":"","other":""}`, ".spok/.gitignore": "*\n", ".spok/CACHEDIR.TAG": "Signature: 8a477f597d28d172789f06886806bc55"})
	}
	cwd := sproj
	if k.Nested {
		cwd = filepath.Join(sproj, "nested", "dir")
	}
	bad := func(clause, format string, args ...any) {
		vs = append(vs, core.Violation{Property: "C12", Clause: clause, Key: k.key(), Detail: fmt.Sprintf(format, args...) + fmt.Sprintf("\nfiles %v nested=%v clean-task=%v\nspokfile:\n%s", k.Files, k.Nested, k.CleanTask, text)})
	}

	// the reference denotation of the declared outputs
	linkDeclared := false
	declared := map[string]bool{}    // paths that must be gone on success
	allowedDirs := map[string]bool{} // glob-matched directories: may go (with everything below)
	for _, o := range k.Outs {
		switch o.Kind {
		case "literal":
			// a literal is relative to the spokfile's directory even when it starts with a slash
			declared[filepath.Join(proj, strings.ReplaceAll(o.Text, "@HOME@", shome))] = true
		case "var":
			v := strings.ReplaceAll(o.Value, "@PROJ@", sproj)
			switch {
			case o.Join && !filepath.IsAbs(v):
				// join() gives the absolute cleaned path against the working directory of the invocation
				v = filepath.Join(cwd, v)
			case !filepath.IsAbs(v):
				v = filepath.Join(proj, v)
			}
			if k.ViaLink && canon(v) == shome {
				// the link through which the project is reached: removing it removes no directory, and
				// it is "above the project" only in the user's spelling - both outcomes are accepted
				linkDeclared = true
				continue
			}
			declared[canon(v)] = true
		case "glob":
			for _, p := range ref.Denotation(proj, o.Text) {
				declared[p] = true
			}
			// directories and symlinks whose relative path matches the pattern (non-hidden): they may
			// be removed (the link itself, never what it points to) but need not be
			_ = filepath.Walk(proj, func(p string, info os.FileInfo, err error) error {
				if err != nil || info.Mode().IsRegular() || p == proj {
					return nil
				}
				rel, _ := filepath.Rel(proj, p)
				if !strings.HasPrefix(rel, ".") && ref.Match(o.Text, rel) {
					if info.Mode()&os.ModeSymlink != 0 {
						// a link is a file whatever it points to (also to nothing): it goes, its target stays
						declared[p] = true
					} else {
						allowedDirs[p] = true
					}
				}
				return nil
			})
		}
	}
	protected := func(p string) bool { // the spokfile, its directory and everything above
		p = filepath.Clean(p)
		return p == filepath.Join(proj, "spokfile") || isUnder(proj, p)
	}
	forbiddenDeclared := false
	for p := range declared {
		if protected(p) {
			forbiddenDeclared = true
		}
	}
	// glob matches never include the spokfile as something that must go
	delete(declared, filepath.Join(proj, "spokfile"))
	if forbiddenDeclared {
		// re-check: only explicit (literal/var) outputs can make the declaration forbidden
		forbiddenDeclared = false
		for _, o := range k.Outs {
			var p string
			switch o.Kind {
			case "literal":
				p = filepath.Join(proj, strings.ReplaceAll(o.Text, "@HOME@", shome))
			case "var":
				p = strings.ReplaceAll(o.Value, "@PROJ@", sproj)
				if o.Join && !filepath.IsAbs(p) {
					p = filepath.Join(cwd, p)
				} else if !filepath.IsAbs(p) {
					p = filepath.Join(proj, p)
				}
				p = canon(p)
				if k.ViaLink && p == shome {
					continue
				}
			default:
				continue
			}
			if protected(p) {
				forbiddenDeclared = true
			}
		}
	}

	before := core.Snap(root)
	traceFile := filepath.Join(root, "strace.out")
	var env []string
	if k.LogicPWD {
		env = []string{"PWD=" + cwd}
	}
	inv := core.RunSpok(core.SpokOpts{Bin: c.SpokRace(), Dir: cwd, Home: shome, Env: env, Args: []string{"--clean"}, Prefix: core.StracePrefix(traceFile)})
	res.Evaluations++
	events, terr := core.ParseStrace(traceFile, cwd)
	if terr != nil {
		core.Fatal("strace produced no trace: %v; stderr of the invocation: %s", terr, core.Trunc(inv.Stderr, 500))
	}
	for i := range events {
		events[i].Path = canon(events[i].Path)
	}
	if k.ViaLink {
		res.Count("cases_reached_through_a_symlinked_directory", 1)
	}
	_ = os.Remove(traceFile)
	delete(before, "strace.out")
	after := core.Snap(root)
	delete(after, "strace.out")
	diff := core.SnapDiff(before, after)
	obs := c12obs{Inv: inv, Diff: diff, Events: events}
	defer func() {
		for i := range vs {
			vs[i].Events = obs
		}
	}()
	if inv.Crashed() || inv.Race || inv.TimedOut {
		bad("binary-no-crash", "spok crashed, raced or hung: %s", core.Trunc(inv.Stderr, 500))
		return
	}
	absOf := func(rel string) string { return filepath.Join(root, rel) }

	// never the spokfile, its directory or anything above
	for _, p := range []string{filepath.Join(proj, "spokfile"), proj, home, filepath.Join(root, "s1", "s2"), filepath.Join(root, "s1"), root} {
		if _, err := os.Lstat(p); err != nil {
			bad("never-the-project", "%s was removed by --clean", p)
			return
		}
	}
	if b, _ := os.ReadFile(filepath.Join(proj, "spokfile")); string(b) != text {
		bad("never-the-project", "the spokfile was modified by --clean")
		return
	}

	if k.CleanTask {
		res.Count("cases_with_clean_task", 1)
		// the task is run instead: its effect plus the cache directory, nothing removed by spok
		for _, p := range diff.Removed {
			bad("clean-task-runs-instead", "a task named clean exists but %s was removed", p)
			return
		}
		for _, e := range events {
			if e.Kind == "remove" && !e.Child {
				bad("clean-task-runs-instead", "a task named clean exists but spok itself issued %s", e.Raw)
				return
			}
		}
		for _, p := range append(append([]string{}, diff.Added...), diff.Modified...) {
			a := absOf(p)
			if a == canon(filepath.Join(cwd, "cleaned.marker")) || isUnder(a, filepath.Join(proj, ".spok")) {
				continue
			}
			bad("clean-task-runs-instead", "unexpected change at %s while running the clean task", p)
			return
		}
		if inv.Exit != 0 {
			bad("clean-task-runs-instead", "running the clean task failed: %s", core.Trunc(inv.Stderr, 300))
			return
		}
		if _, err := os.Stat(filepath.Join(cwd, "cleaned.marker")); err != nil { // through the link is fine
			bad("clean-task-runs-instead", "the clean task's command did not run")
			return
		}
		res.Distinct(core.Hash64(k.key()))
		return
	}

	// allowed removals: declared outputs that are not protected, glob-matched directories,
	// the cache directory, and anything below a removed directory
	allowedRoot := func(p string) bool {
		p = filepath.Clean(p)
		if isUnder(p, filepath.Join(proj, ".spok")) || (linkDeclared && p == shome) {
			return true
		}
		for d := range declared {
			if !protected(d) && isUnder(p, d) {
				return true
			}
		}
		for d := range allowedDirs {
			if isUnder(p, d) {
				return true
			}
		}
		return false
	}
	for _, p := range diff.Removed {
		if !allowedRoot(absOf(p)) {
			bad("removes-nothing-else", "%s was removed but is not designated by any declared output", p)
			return
		}
	}
	for _, p := range append(append([]string{}, diff.Added...), diff.Modified...) {
		a := absOf(p)
		// a directory's entry changes when something inside it is removed: only file content counts
		if e, ok := after[p]; ok && e.Type == "dir" {
			if b, ok2 := before[p]; ok2 && b.Type == "dir" && b.Mode == e.Mode {
				continue
			}
		}
		if !allowedRoot(a) {
			bad("modifies-nothing-else", "%s was created or modified by --clean", p)
			return
		}
	}
	for _, e := range events {
		if e.Child {
			continue
		}
		if !allowedRoot(e.Path) {
			bad("syscalls-within-write-set", "spok issued %s (%s %s), outside what --clean may touch", e.Raw, e.Kind, e.Path)
			return
		}
	}
	if inv.Exit != 0 {
		if !forbiddenDeclared && !linkDeclared {
			bad("clean-succeeds", "--clean failed (exit %d) although no output designates the spokfile, its directory or anything above: %s", inv.Exit, core.Trunc(inv.Stderr, 300))
			return
		}
		res.Count("refusals", 1)
		res.Distinct(core.Hash64(k.key()))
		return
	}
	// success: everything designated is gone, and so is the cache
	var must []string
	for d := range declared {
		if !protected(d) {
			must = append(must, d)
		}
	}
	sort.Strings(must)
	if _, err := os.Lstat(shome); linkDeclared && err != nil {
		// an output designated the very link through which the project is reached and spok removed it:
		// whatever it was to remove through that link afterwards could no longer be found (the order of
		// removals is not fixed). Nothing is demanded of the other outputs in that corner.
		res.Count("access_link_removed_by_clean", 1)
		must = nil
	}
	for _, d := range must {
		if _, err := os.Lstat(d); err == nil {
			bad("removes-every-output", "%s is designated by a declared output but still exists after --clean (exit 0)", d)
			return
		}
	}
	_, linkErr := os.Lstat(shome)
	if _, err := os.Lstat(filepath.Join(proj, ".spok")); err == nil && !(linkDeclared && linkErr != nil) {
		bad("removes-the-cache", "the cache directory still exists after --clean (exit 0)")
		return
	}
	if forbiddenDeclared {
		res.Count("forbidden_outputs_survived_with_exit_0", 1)
	}
	res.Count("removed_paths", int64(len(diff.Removed)))
	res.Count("mutating_syscalls_seen", int64(len(events)))
	if len(must) > 0 {
		res.Distinct(core.Hash64(k.key()))
		if len(diff.Removed) > 2 {
			res.Sample(map[string]any{"spokfile": text, "files": k.Files, "removed": diff.Removed, "nested": k.Nested}, 2)
		}
	}
	return
}

func c12Run(c *core.Ctx) bool {
	n := c.Q(1500, 20000)
	results := make([]*core.ShardResult, n)
	core.ParallelFor(n, c.NCPU, func(i int) {
		results[i] = core.NewShardResult()
		k := c12Gen(c.Rng(core.StrKey("c12"), uint64(i)))
		for _, v := range c12Judge(c, k, results[i]) {
			v.Case = core.JSON(k)
			results[i].Violate(v)
		}
	})
	total := core.NewShardResult()
	for _, r := range results {
		total.Merge(r)
	}
	reportAll(c, total)
	distinct := total.DistinctCount()
	cov := map[string]any{
		"evaluations":         total.Evaluations,
		"distinct_nontrivial": distinct,
		"rule":                "random project trees (files inside and outside declared outputs, nested directories, pre-existing and missing outputs, a sibling directory and files above the project, symlinks to a file, to a directory inside and to a directory outside the project, file names containing '[', '?', a backslash and '..', with/without an existing cache; in 20% of the cases the project and $HOME are reached through a symlinked directory; in 25% the project directory is called ..proj, proj.., ..., -proj, 'pro j', proj[1] or ~proj) x spokfiles declaring 0-5 outputs: literal files/directories (also spelled with a leading slash or as an absolute path of a file beside the project: still relative to the spokfile), variables (relative, or absolute via join), globs (matching files, directories, nothing, '*' which matches the spokfile) and in 30% of the cases dangerous values ('', '.', '..', './', 'build/..', 'spokfile', '../proj', ...); with/without a task named clean; invoked from the project root or a nested directory. Race-built binary under strace -f; monitors: full before/after snapshot (path, type, mode, sha256) of the whole sandbox and every successful unlink/rmdir/rename/open-for-write/truncate/chmod/mkdir resolved to an absolute path. evaluations = traced invocations; non-trivial = distinct cases with >=1 designated output (or a refusal, or a clean task) that passed every clause",
		"samples":             total.Samples,
		"counters":            total.Counters,
		"exhaustive":          false,
	}
	c.WriteEvidence("exploration", cov, []string{
		"designated paths: literal outputs relative to the spokfile directory; variable values (relative ones against the spokfile directory, join(...) against the invocation's working directory); glob outputs = reference matcher over a full walk, non-hidden regular files (directories matching a glob may be removed but need not be)",
		"exit != 0 is accepted only as a refusal, when an explicit output designates the spokfile, its directory or an ancestor",
		"system calls of child processes (none in this workload) are not attributed to spok",
	})
	if distinct < 100 || total.Counters["refusals"] == 0 || total.Counters["cases_with_clean_task"] == 0 || total.Counters["mutating_syscalls_seen"] == 0 {
		fmt.Printf("INCONCLUSIVE: coverage floor missed %v\n", total.Counters)
		return false
	}
	return true
}

func c12Replay(c *core.Ctx, v core.Violation) []core.Violation {
	var k c12case
	if err := json.Unmarshal(v.Case, &k); err != nil {
		core.Fatal("replay: %v", err)
	}
	vs := c12Judge(c, k, core.NewShardResult())
	for i := range vs {
		vs[i].Case = v.Case
	}
	return vs
}
