package props

// C03: requested tasks and their transitive dependencies run once, dependencies
// first; undefined names, duplicate definitions and cycles are errors that run nothing.

import (
	"encoding/json"
	"fmt"
	"os"
	"path/filepath"
	"sort"
	"strings"

	"verif/harness/core"

	"github.com/FollowTheProcess/spok/file"
	"github.com/FollowTheProcess/spok/iostream"
	"github.com/FollowTheProcess/spok/parser"
	"github.com/FollowTheProcess/spok/shell"
)

func init() {
	register("C03", &Engine{Run: c03Run, Worker: c03Worker, Replay: c03Replay})
}

var c03Names = []string{"a", "b", "c", "d", "e", "f", "g", "h"}

// gcase is one graph with one request list and one variant.
type gcase struct {
	N       int    `json:"n"`
	Edges   uint64 `json:"edges"` // bit i*N+j: task i depends on task j
	Req     []int  `json:"req"`   // indices into the task list; -1 = an undefined name
	Variant string `json:"variant"`
	VarArg  int    `json:"var_arg"`
	Undef   string `json:"undefined_name,omitempty"` // the undefined request name ("" = chosen from the graph)
}

func (g gcase) deps(i int) []int {
	var out []int
	for j := 0; j < g.N; j++ {
		if g.Edges&(1<<uint(i*g.N+j)) != 0 {
			out = append(out, j)
		}
	}
	return out
}

func (g gcase) key() string {
	return fmt.Sprintf("%d/%x/%v/%s/%d", g.N, g.Edges, g.Req, g.Variant, g.VarArg)
}

// text renders the spokfile. Variants:
//
//	undef-dep  task VarArg additionally depends on the undefined name zz
//	dup-def    task VarArg is defined twice
//	fail       the first command of task VarArg exits 3
//	files      odd tasks depend on the file dep.txt (so repeated runs skip them)
//	same-spelling every task dependency b is accompanied by the file dependency "b"
//	dup-mention every task names each of its dependencies twice (a, b, b, a): same graph
//	var-shadow a variable with the name of task VarArg is defined first (an identifier in a
//	           dependency list still names the task)
func (g gcase) text(real bool, logPath string) string {
	var b strings.Builder
	if g.Variant == "var-shadow" {
		fmt.Fprintf(&b, "%s := \"dep.txt\"\n\n", c03Names[g.VarArg])
	}
	for i := 0; i < g.N; i++ {
		var deps []string
		for _, j := range g.deps(i) {
			deps = append(deps, c03Names[j])
		}
		if g.Variant == "same-spelling" {
			// next to every task dependency b stands the file dependency "b" (a file of that name exists)
			var both []string
			for _, d := range deps {
				both = append(both, "\""+d+"\"", d)
			}
			deps = both
		}
		if g.Variant == "dup-mention" {
			for k := len(deps) - 1; k >= 0; k-- {
				deps = append(deps, deps[k])
			}
		}
		if g.Variant == "undef-dep" && g.VarArg == i {
			deps = append(deps, "zz")
		}
		if g.Variant == "files" && i%2 == 1 {
			deps = append(deps, "\"dep.txt\"")
		}
		ncmd := c03NCmd(i)
		write := func() {
			fmt.Fprintf(&b, "task %s(%s) {\n", c03Names[i], strings.Join(deps, ", "))
			for k := 0; k < ncmd; k++ {
				if real {
					body := "true"
					if g.Variant == "fail" && g.VarArg == i && k == 0 {
						body = "false"
					}
					fmt.Fprintf(&b, "    printf '%%s\\n' %s.%d.start >> %s && %s && printf '%%s\\n' %s.%d.ok >> %s\n", c03Names[i], k, logPath, body, c03Names[i], k, logPath)
				} else {
					fmt.Fprintf(&b, "    run %s %d\n", c03Names[i], k)
				}
			}
			b.WriteString("}\n\n")
		}
		write()
		if g.Variant == "dup-def" && g.VarArg == i {
			write()
		}
	}
	return b.String()
}

// c03NCmd: tasks have 1, 2 or no commands (a task without commands still takes part in the run).
func c03NCmd(i int) int { return []int{1, 2, 0, 1, 2, 1, 0, 2}[i%8] }

func (g gcase) request() []string {
	var out []string
	for _, r := range g.Req {
		if r < 0 {
			// an undefined name; some spell what other tools take for a command
			if g.Undef != "" {
				out = append(out, g.Undef)
				continue
			}
			out = append(out, []string{"zz", "clean", "help", "all", "init", "fmt", "version", "show", "vars", "default_"}[(g.N+int(g.Edges%7)+len(g.Req))%10])
		} else {
			out = append(out, c03Names[r])
		}
	}
	return out
}

// model: closure and whether an error is expected.
func (g gcase) model() (closure []int, wantErr string) {
	if g.Variant == "dup-def" {
		wantErr = "duplicate definition"
	}
	seen := map[int]bool{}
	var stack []int
	for _, r := range g.Req {
		if r < 0 {
			wantErr = "undefined request"
			continue
		}
		stack = append(stack, r)
	}
	for len(stack) > 0 {
		i := stack[len(stack)-1]
		stack = stack[:len(stack)-1]
		if seen[i] {
			continue
		}
		seen[i] = true
		if g.Variant == "undef-dep" && g.VarArg == i && wantErr == "" {
			wantErr = "undefined dependency"
		}
		stack = append(stack, g.deps(i)...)
	}
	for i := range seen {
		closure = append(closure, i)
	}
	sort.Ints(closure)
	// cycle inside the closure (incl. self loops): repeatedly remove vertices without
	// unresolved dependencies
	if wantErr == "" {
		left := map[int]bool{}
		for _, i := range closure {
			left[i] = true
		}
		for changed := true; changed; {
			changed = false
			for i := range left {
				free := true
				for _, j := range g.deps(i) {
					if left[j] {
						free = false
					}
				}
				if free {
					delete(left, i)
					changed = true
				}
			}
		}
		if len(left) > 0 {
			wantErr = "cycle"
		}
	}
	return closure, wantErr
}

// ---------------------------------------------------------------------------
// Recording runner

type runEvent struct {
	Task string `json:"task"`
	Cmd  string `json:"cmd"`
}

type recRunner struct {
	events []runEvent
	fail   string // task whose first command fails
}

func (r *recRunner) Run(cmd string, _ iostream.IOStream, task string, _ []string) (shell.Result, error) {
	r.events = append(r.events, runEvent{Task: task, Cmd: cmd})
	st := 0
	if r.fail != "" && task == r.fail && strings.HasSuffix(cmd, " 0") {
		st = 3
	}
	return shell.Result{Cmd: cmd, Status: st}, nil
}

// ---------------------------------------------------------------------------
// Plan

type gblock struct {
	Kind  string // all | sample4 | big
	N     int
	Lo    uint64
	Hi    uint64
	Count int
	ID    int
}

func c03Plan(c *core.Ctx) []gblock {
	var bs []gblock
	id := 0
	add := func(b gblock) { b.ID = id; id++; bs = append(bs, b) }
	for n := 1; n <= 3; n++ {
		total := uint64(1) << uint(n*n)
		for lo := uint64(0); lo < total; lo += 64 {
			hi := lo + 64
			if hi > total {
				hi = total
			}
			add(gblock{Kind: "all", N: n, Lo: lo, Hi: hi})
		}
	}
	if c.Thorough() {
		for lo := uint64(0); lo < 65536; lo += 256 {
			add(gblock{Kind: "all", N: 4, Lo: lo, Hi: lo + 256})
		}
	} else {
		for k := 0; k < 32; k++ {
			add(gblock{Kind: "sample4", N: 4, Count: 128})
		}
	}
	nbig := c.Q(2000, 50000)
	for done := 0; done < nbig; done += 100 {
		add(gblock{Kind: "big", Count: 100})
	}
	return bs
}

func c03Run(c *core.Ctx) bool {
	plan := c03Plan(c)
	nsh := len(plan)
	if nsh > 64 {
		nsh = 64
	}
	res, deaths := c.RunWorkers(core.WorkerSpec{Sub: "graph", NShards: nsh, AlwaysLogs: false})
	// a sample of cases through the real binary
	bin := c03Binary(c)
	res.Merge(bin)
	reportAll(c, res)
	for _, d := range deaths {
		fmt.Printf("INCONCLUSIVE: worker died (%s): %s\n", d.Kind, core.Trunc(d.StderrTail, 1500))
	}
	distinct := res.DistinctCount()
	cov := map[string]any{
		"evaluations":         res.Evaluations,
		"distinct_nontrivial": distinct,
		"rule":                "every digraph (all edge subsets incl. self loops) on 1..3 tasks (and 4 tasks: all 65536 in thorough, a seeded 4096 sample in quick) x every non-empty request set in ascending and descending order plus one duplicated request, sampled graphs of 5-8 tasks, variants with an undefined dependency / undefined request / duplicate definition / failing command / file dependencies (so that repeats skip) / dependencies mentioned twice; each (graph, request) is loaded once and run repeatedly in-process with a recording runner so that the map order inside the topological sort varies; a sample also goes through the race-built binary with --json. evaluations = Run calls; non-trivial = distinct (graph, request, variant) whose closure has >=2 tasks or for which an error is demanded",
		"samples":             res.Samples,
		"counters":            res.Counters,
		"exhaustive":          false,
		"exhaustive_note":     "graphs on <=3 tasks (and on 4 tasks in the thorough tier) are enumerated completely with all request sets",
		"worker_deaths":       len(deaths),
	}
	for k, v := range res.SetSizes() {
		cov["distinct_"+k] = v
	}
	c.WriteEvidence("exploration", cov, []string{
		"graph model: closure of the request under declared task dependencies; error iff an undefined name is requested or depended upon inside the closure, a task is defined twice, or the closure contains a cycle (incl. self loop)",
		"tasks whose dependency on an undefined name lies outside the closure are expected to run normally (the current implementation does so)",
		"in-process runs use a recording shell.Runner (no command is executed); the binary sample uses printf/true/false only",
	})
	if res.Evaluations < 10000 || distinct < 1000 || res.Counters["error_cases_checked"] == 0 || res.Counters["binary_cases"] == 0 {
		fmt.Println("INCONCLUSIVE: coverage floor missed")
		return false
	}
	return len(deaths) == 0 && res.Inconclusive == 0
}

// ---------------------------------------------------------------------------
// Worker

func c03Requests(n int, r *core.Rng) [][]int {
	var out [][]int
	for mask := 1; mask < 1<<uint(n); mask++ {
		var asc []int
		for i := 0; i < n; i++ {
			if mask&(1<<uint(i)) != 0 {
				asc = append(asc, i)
			}
		}
		out = append(out, asc)
		if len(asc) > 1 {
			desc := make([]int, len(asc))
			for i, v := range asc {
				desc[len(asc)-1-i] = v
			}
			out = append(out, desc)
		}
	}
	// one duplicated request
	x := r.Intn(n)
	if n > 1 && r.Bool() {
		y := (x + 1 + r.Intn(n-1)) % n
		out = append(out, []int{x, y, x})
	} else {
		out = append(out, []int{x, x})
	}
	return out
}

func c03Worker(c *core.Ctx) {
	plan := c03Plan(c)
	res := core.NewShardResult()
	wl := core.OpenWLog()
	root := c.TempDir("c03-")
	defer os.RemoveAll(root)
	_ = os.WriteFile(filepath.Join(root, "dep.txt"), []byte("x"), 0o644)
	for _, n := range c03Names {
		_ = os.WriteFile(filepath.Join(root, n), []byte("a file named like task "+n), 0o644)
	}
	reps := c.Q(8, 32)
	for _, b := range plan {
		if b.ID%c.NShards != c.Shard || b.ID < wl.Start {
			continue
		}
		wl.Block(b.ID)
		r := c.Rng(core.StrKey("c03"), uint64(b.ID))
		idx := 0
		graphs := func(yield func(g gcase)) {
			switch b.Kind {
			case "all":
				for e := b.Lo; e < b.Hi; e++ {
					yield(gcase{N: b.N, Edges: e})
				}
			case "sample4":
				for i := 0; i < b.Count; i++ {
					e := r.U64() & 0xffff
					if i%2 == 1 {
						e &= r.U64() // sparser: more acyclic closures
					}
					if i%4 == 3 {
						e &= r.U64()
					}
					yield(gcase{N: 4, Edges: e})
				}
			case "big":
				for i := 0; i < b.Count; i++ {
					n := r.Range(5, 8)
					var e uint64
					p := []int{8, 15, 25, 40}[r.Intn(4)]
					back := []int{0, 0, 3, 10}[r.Intn(4)]
					for i := 0; i < n; i++ {
						for j := 0; j < n; j++ {
							if (j < i && r.Chance(p)) || (j >= i && r.Chance(back)) {
								e |= 1 << uint(i*n+j)
							}
						}
					}
					yield(gcase{N: n, Edges: e})
				}
			}
		}
		graphs(func(g gcase) {
			wl.Tick()
			var reqs [][]int
			if g.N <= 4 {
				reqs = c03Requests(g.N, r)
			} else {
				for k := 0; k < 4; k++ {
					m := r.Range(1, 3)
					var rq []int
					for i := 0; i < m; i++ {
						rq = append(rq, r.Intn(g.N))
					}
					reqs = append(reqs, rq)
				}
			}
			// plain graph with every request
			for _, rq := range reqs {
				gc := g
				gc.Req = rq
				c03Case(c, res, wl, root, b.ID, &idx, gc, reps)
			}
			// one variant of each kind with one seeded request
			for _, variant := range []string{"undef-dep", "undef-req", "dup-def", "fail", "files", "var-shadow", "dup-mention", "same-spelling"} {
				if g.N >= 3 && !r.Chance(35) {
					continue // keep the cost of the big enumerations bounded
				}
				gc := g
				gc.Variant = variant
				gc.VarArg = r.Intn(g.N)
				gc.Req = append([]int{}, core.Pick(r, reqs)...)
				if variant == "undef-req" {
					pos := r.Intn(len(gc.Req) + 1)
					gc.Req = append(gc.Req[:pos], append([]int{-1}, gc.Req[pos:]...)...)
				}
				c03Case(c, res, wl, root, b.ID, &idx, gc, reps)
			}
		})
	}
	core.WriteResult(res)
}

// c03Case loads the case once and runs it reps times, judging every run.
func c03Case(c *core.Ctx, res *core.ShardResult, wl *core.WLog, root string, blk int, idx *int, g gcase, reps int) {
	i := *idx
	*idx++
	if !wl.Begin(blk, i, func() any { return g }) {
		return
	}
	vs, orders := c03Judge(root, g, reps, res)
	for _, v := range vs {
		v.Case = core.JSON(g)
		if v.Key == "" {
			v.Key = g.key()
		}
		res.Violate(v)
	}
	closure, wantErr := g.model()
	if len(closure) >= 2 || wantErr != "" {
		res.Distinct(core.Hash64(g.key()))
	}
	if orders > 1 {
		res.Count("cases_with_several_valid_orders_seen", 1)
	}
	if int64(orders) > res.Counters["max_distinct_orders_one_case"] {
		res.Counters["max_distinct_orders_one_case"] = int64(orders)
	}
	if len(closure) >= 3 && wantErr == "" {
		res.Sample(map[string]any{"spokfile": g.text(false, ""), "request": g.request(), "closure_size": len(closure), "distinct_orders_seen": orders}, 2)
	}
}

func c03Judge(root string, g gcase, reps int, res *core.ShardResult) (vs []core.Violation, distinctOrders int) {
	closure, wantErr := g.model()
	text := g.text(false, "")
	_ = os.RemoveAll(filepath.Join(root, ".spok"))
	bad := func(clause, format string, args ...any) {
		vs = append(vs, core.Violation{Property: "C03", Clause: clause, Detail: fmt.Sprintf(format, args...) + fmt.Sprintf("\nrequest %v, spokfile:\n%s", g.request(), text)})
	}
	tree, err := parser.New(text).Parse()
	if err != nil {
		bad("harness-spokfile-parses", "generated spokfile does not parse: %v", err)
		return
	}
	sf, err := file.New(tree, root, nullLogger{})
	if err != nil {
		if wantErr != "duplicate definition" {
			bad("no-spurious-error", "loading failed: %v", err)
		} else {
			res.Count("error_cases_checked", 1)
			res.Seen("error_kinds", wantErr)
		}
		return
	}
	if wantErr == "duplicate definition" {
		bad("error-reported", "a task is defined twice but the spokfile loads")
		return
	}
	orders := map[string]bool{}
	for rep := 0; rep < reps; rep++ {
		runner := &recRunner{}
		if g.Variant == "fail" {
			runner.fail = c03Names[g.VarArg]
		}
		results, err := sf.Run(iostream.Null(), runner, false, g.request()...)
		res.Evaluations++
		if wantErr != "" {
			if err == nil {
				bad("error-reported", "model demands an error (%s) but Run returned results %v", wantErr, taskNames(results))
				return
			}
			if len(runner.events) != 0 {
				bad("error-runs-nothing", "Run reported %q but %d commands had already been started: %v", err, len(runner.events), runner.events)
				return
			}
			if rep == 0 {
				res.Count("error_cases_checked", 1)
				res.Seen("error_kinds", wantErr)
			}
			continue
		}
		if err != nil {
			bad("no-spurious-error", "Run failed with %q but the closure %v is defined and acyclic", err, idxNames(closure))
			return
		}
		// exactly the closure, each once
		pos := map[string]int{}
		var order []string
		for i, r := range results {
			if _, dup := pos[r.Task]; dup {
				bad("exactly-once", "task %s appears twice in the results %v", r.Task, taskNames(results))
				return
			}
			pos[r.Task] = i
			order = append(order, r.Task)
		}
		for _, i := range closure {
			if _, ok := pos[c03Names[i]]; !ok {
				bad("nothing-left-out", "task %s is in the closure of the request but not in the results %v", c03Names[i], order)
				return
			}
		}
		if len(pos) != len(closure) {
			bad("nothing-extra", "results %v contain tasks outside the closure %v", order, idxNames(closure))
			return
		}
		// dependencies first
		for _, i := range closure {
			for _, j := range g.deps(i) {
				if pos[c03Names[j]] > pos[c03Names[i]] {
					bad("dependencies-first", "task %s depends on %s but comes first in %v", c03Names[i], c03Names[j], order)
					return
				}
			}
		}
		// what the runner saw: the commands of the non-skipped tasks, in result order, each once
		var want []runEvent
		for _, r := range results {
			if r.Skipped {
				res.Count("skipped_results_seen", 1)
				continue
			}
			var ti int
			for k, n := range c03Names {
				if n == r.Task {
					ti = k
				}
			}
			for k := 0; k < c03NCmd(ti); k++ {
				want = append(want, runEvent{Task: r.Task, Cmd: fmt.Sprintf("run %s %d", r.Task, k)})
			}
		}
		if fmt.Sprint(want) != fmt.Sprint(runner.events) {
			bad("runner-events-match", "commands started %v, expected from the results %v", runner.events, want)
			return
		}
		orders[strings.Join(order, ",")] = true
	}
	if wantErr == "" {
		res.Count("acyclic_cases_checked", 1)
		if g.Variant == "fail" {
			res.Count("failing_command_cases", 1)
		}
	}
	return vs, len(orders)
}

func idxNames(xs []int) []string {
	var out []string
	for _, i := range xs {
		out = append(out, c03Names[i])
	}
	return out
}

func taskNames(rs interface{ JSON() (string, error) }) string {
	s, _ := rs.JSON()
	return core.Trunc(s, 300)
}

// ---------------------------------------------------------------------------
// Binary sample

type jsonResult struct {
	Task    string `json:"task"`
	Skipped bool   `json:"skipped"`
	Results []struct {
		Cmd    string `json:"cmd"`
		Stdout string `json:"stdout"`
		Stderr string `json:"stderr"`
		Status int    `json:"status"`
	} `json:"results"`
}

func c03Binary(c *core.Ctx) *core.ShardResult {
	res := core.NewShardResult()
	n := c.Q(160, 1600)
	r := c.Rng(core.StrKey("c03-binary"))
	var cases []gcase
	for i := 0; i < n; i++ {
		nn := r.Range(2, 6)
		var e uint64
		back := []int{0, 0, 0, 6}[r.Intn(4)]
		for a := 0; a < nn; a++ {
			for b := 0; b < nn; b++ {
				if (b < a && r.Chance(35)) || (b >= a && r.Chance(back)) {
					e |= 1 << uint(a*nn+b)
				}
			}
		}
		g := gcase{N: nn, Edges: e}
		m := r.Range(1, 2)
		for k := 0; k < m; k++ {
			g.Req = append(g.Req, r.Intn(nn))
		}
		switch r.Intn(7) {
		case 0:
			g.Variant, g.VarArg = "undef-dep", r.Intn(nn)
		case 1:
			g.Variant = "undef-req"
			g.Undef = core.Pick(r, []string{"clean", "clean", "help", "fmt", "init", "zz"})
			if r.Bool() {
				g.Req = append(g.Req, -1)
			} else {
				g.Req = append([]int{-1}, g.Req...)
			}
		case 2:
			g.Variant, g.VarArg = "dup-def", r.Intn(nn)
		case 3:
			g.Variant = "dup-mention"
		case 4:
			g.Variant = "same-spelling"
		}
		cases = append(cases, g)
	}
	results := make([]*core.ShardResult, len(cases))
	core.ParallelFor(len(cases), c.NCPU, func(i int) {
		results[i] = core.NewShardResult()
		for _, v := range c03BinaryCase(c, cases[i], results[i]) {
			v.Case = core.JSON(cases[i])
			v.Engine = "binary"
			if v.Key == "" {
				v.Key = "binary:" + cases[i].key()
			}
			results[i].Violate(v)
		}
	})
	for _, r := range results {
		res.Merge(r)
	}
	return res
}

func c03BinaryCase(c *core.Ctx, g gcase, res *core.ShardResult) (vs []core.Violation) {
	dir := c.TempDir("c03b-")
	defer os.RemoveAll(dir)
	proj := filepath.Join(dir, "home", "proj")
	logPath := filepath.Join(dir, "log")
	_ = os.MkdirAll(proj, 0o755)
	for _, n := range c03Names {
		_ = os.WriteFile(filepath.Join(proj, n), []byte("a file named like task "+n), 0o644)
	}
	text := g.text(true, logPath)
	_ = os.WriteFile(filepath.Join(proj, "spokfile"), []byte(text), 0o644)
	inv := core.RunSpok(core.SpokOpts{Bin: c.SpokRace(), Dir: proj, Home: filepath.Join(dir, "home"), Args: append([]string{"--json"}, g.request()...)})
	res.Evaluations++
	res.Count("binary_cases", 1)
	logb, _ := os.ReadFile(logPath)
	closure, wantErr := g.model()
	bad := func(clause, format string, args ...any) {
		vs = append(vs, core.Violation{Property: "C03", Clause: clause, Detail: fmt.Sprintf(format, args...) + fmt.Sprintf("\nrequest %v exit %d stderr %s\nspokfile:\n%s", g.request(), inv.Exit, core.Trunc(inv.Stderr, 400), text),
			Events: map[string]any{"invocation": inv, "log": string(logb)}})
	}
	if inv.Crashed() || inv.Race || inv.TimedOut {
		bad("binary-no-crash", "spok crashed / raced / timed out")
		return
	}
	if wantErr != "" {
		if inv.Exit == 0 {
			bad("error-reported", "model demands an error (%s) but spok exited 0", wantErr)
		} else if len(logb) != 0 {
			bad("error-runs-nothing", "spok reported an error but commands ran: %q", string(logb))
		}
		res.Count("binary_error_cases", 1)
		return
	}
	if inv.Exit != 0 {
		bad("no-spurious-error", "spok failed although the closure %v is defined and acyclic", idxNames(closure))
		return
	}
	var jr []jsonResult
	if err := json.Unmarshal([]byte(strings.TrimSpace(inv.Stdout)), &jr); err != nil {
		bad("binary-json", "stdout is not one JSON document: %v: %q", err, core.Trunc(inv.Stdout, 300))
		return
	}
	pos := map[string]int{}
	for i, r := range jr {
		if _, dup := pos[r.Task]; dup {
			bad("exactly-once", "task %s twice in the report", r.Task)
			return
		}
		pos[r.Task] = i
	}
	if len(pos) != len(closure) {
		bad("nothing-left-out", "report has %d tasks, closure %v", len(pos), idxNames(closure))
		return
	}
	for _, i := range closure {
		if _, ok := pos[c03Names[i]]; !ok {
			bad("nothing-left-out", "task %s missing from the report", c03Names[i])
			return
		}
		for _, j := range g.deps(i) {
			if pos[c03Names[j]] > pos[c03Names[i]] {
				bad("dependencies-first", "task %s before its dependency %s in the report", c03Names[i], c03Names[j])
				return
			}
		}
	}
	// the side-effect log: every command of every closure task exactly once, dependencies finished first
	lines := strings.Fields(string(logb))
	at := map[string]int{}
	for i, l := range lines {
		if _, dup := at[l]; dup {
			bad("exactly-once", "log line %s twice: %v", l, lines)
			return
		}
		at[l] = i
	}
	for _, i := range closure {
		for k := 0; k < c03NCmd(i); k++ {
			if _, ok := at[fmt.Sprintf("%s.%d.ok", c03Names[i], k)]; !ok {
				bad("nothing-left-out", "command %d of task %s did not run (log %v)", k, c03Names[i], lines)
				return
			}
		}
		for _, j := range g.deps(i) {
			if c03NCmd(j) == 0 || c03NCmd(i) == 0 {
				continue // nothing of that task in the log; the report order was checked above
			}
			lastDep := at[fmt.Sprintf("%s.%d.ok", c03Names[j], c03NCmd(j)-1)]
			first := at[fmt.Sprintf("%s.0.start", c03Names[i])]
			if lastDep > first {
				bad("dependencies-first", "task %s started before its dependency %s finished (log %v)", c03Names[i], c03Names[j], lines)
				return
			}
		}
	}
	res.Count("binary_ok_cases", 1)
	if len(closure) >= 2 {
		res.Distinct(core.Hash64("binary", g.key()))
	}
	return
}

func c03Replay(c *core.Ctx, v core.Violation) []core.Violation {
	var g gcase
	if err := json.Unmarshal(v.Case, &g); err != nil {
		core.Fatal("replay: %v", err)
	}
	res := core.NewShardResult()
	var vs []core.Violation
	if v.Engine == "binary" {
		vs = c03BinaryCase(c, g, res)
	} else {
		root := c.TempDir("c03r-")
		defer os.RemoveAll(root)
		_ = os.WriteFile(filepath.Join(root, "dep.txt"), []byte("x"), 0o644)
		for _, n := range c03Names {
			_ = os.WriteFile(filepath.Join(root, n), []byte("a file named like task "+n), 0o644)
		}
		vs, _ = c03Judge(root, g, 64, res)
	}
	for i := range vs {
		vs[i].Case = v.Case
		vs[i].Engine = v.Engine
		vs[i].Key = v.Key
	}
	return vs
}
