package props

// C05: a glob denotes exactly the matching non-hidden files under the spokfile dir.

import (
	"encoding/json"
	"fmt"
	"os"
	"path/filepath"
	"sort"
	"strings"

	"verif/harness/core"
	"verif/harness/ref"

	"github.com/FollowTheProcess/spok/file"
	"github.com/FollowTheProcess/spok/iostream"
	"github.com/FollowTheProcess/spok/parser"
	"github.com/bmatcuk/doublestar/v4"
)

func init() {
	register("C05", &Engine{Run: c05Run, Worker: c05Worker, Replay: c05Replay})
}

var c05PoolQ = []string{"a.js", "b.ts", "zz.js", "src/c.js", "src/sub/g.js", "src/.d.js", "src/.hid/e.js", ".eslintrc.js", ".git/f.js", "lib/h.ts", "A.js", "lnk.js@", "ld@src", "src/v1.0..v1.1.js"}
var c05PoolT = append(append([]string{}, c05PoolQ...), "0.js", "~.js", "lib/.keep")

var c05PatQ = []string{
	"*.js", "**/*.js", "src/*", "*/*", "**", "src/**", "**/sub/*", "*.{js,ts}", "s*/*.js", "**/*", "*", "lib/*.ts",
	"**/g.*", "*.ts", "src/*.js", "**/*.ts", "?.j*", "[a-z].j*", "src/**/*.js", "**/{c,g}.js", "src/*/g.js", ".*", ".git/*", ".*.js", ".git/**",
}
var c05PatT = append(append([]string{}, c05PatQ...), "**/.*", "src/.*", "lib/*", "**/src/*", "*/*/*", "zz.*", "**/*.{js,ts}", "*/sub/**", "[!a]*.js", "ld/**", "ld/*.js")

type c05case struct {
	Mask     int      `json:"mask"`
	Files    []string `json:"files"`
	Patterns []string `json:"patterns"`
}

func c05Pools(c *core.Ctx) ([]string, []string) {
	if c.Thorough() {
		return c05PoolT, c05PatT
	}
	return c05PoolQ, c05PatQ
}

func c05Spokfile(pats []string) string {
	var b strings.Builder
	var deps, outs []string
	for i, p := range pats {
		if i%2 == 0 {
			deps = append(deps, `"`+p+`"`)
		} else {
			outs = append(outs, `"`+p+`"`)
		}
	}
	fmt.Fprintf(&b, "task ga(%s) {}\n\n", strings.Join(deps, ", "))
	fmt.Fprintf(&b, "task gb() -> (%s) {}\n\n", strings.Join(outs, ", "))
	b.WriteString("task noop() {}\n")
	return b.String()
}

func c05Run(c *core.Ctx) bool {
	pool, pats := c05Pools(c)
	// self-test of the reference matcher against doublestar.Match on every (pattern, path)
	for _, p := range pats {
		for _, f := range pool {
			f, _, _ = strings.Cut(f, "@")
			m, err := doublestar.Match(p, f)
			if err != nil || m != ref.Match(p, f) {
				core.Fatal("reference glob matcher disagrees with doublestar.Match on (%q, %q): ref=%v doublestar=%v err=%v", p, f, ref.Match(p, f), m, err)
			}
		}
	}
	res, deaths := c.RunWorkers(core.WorkerSpec{Sub: "glob", NShards: 32})
	reportAll(c, res)
	for _, d := range deaths {
		fmt.Printf("INCONCLUSIVE: worker died (%s): %s\n", d.Kind, core.Trunc(d.StderrTail, 1500))
	}
	distinct := res.DistinctCount()
	total := 1 << uint(len(pool))
	cov := map[string]any{
		"evaluations":         res.Evaluations,
		"distinct_nontrivial": distinct,
		"rule":                fmt.Sprintf("every subset of the %d-path pool is materialised as a directory tree (%d trees); one spokfile holds %d glob patterns as dependencies and outputs; the real loader + Run expand them (twice, on fresh SpokFile values) and the public Globs map is compared per pattern with a reference matcher run over a full directory walk (following links to files and to directories); the pool holds a link to a file, a link to a directory and a name containing '..'; a third of the trees hold a valid CACHEDIR.TAG in src/, a quarter a .gitignore and a lib/.ignore that name pool files; the project directory's own name cycles through plain, '[1]', '{old}', '*?' and a blank. evaluations = (tree, pattern) pairs judged; non-trivial = distinct (tree, pattern) pairs whose reference denotation is non-empty", len(pool), total, len(pats)),
		"samples":             res.Samples,
		"counters":            res.Counters,
		"pool":                pool,
		"patterns":            pats,
		"trees":               res.Counters["trees"],
		"exhaustive":          res.Counters["trees"] == int64(total) && len(deaths) == 0,
		"worker_deaths":       len(deaths),
	}
	c.WriteEvidence("exploration", cov, []string{
		"reference matcher: own segment matcher ('**' = zero or more directories, path.Match per segment, brace expansion), cross-checked against doublestar.Match on every (pattern, pool path) pair at start-up",
		"hidden = the path relative to the spokfile directory begins with '.'; directories in spok's expansion are tolerated (the hasher ignores them)",
		"exhaustive over the subsets of the pool and the pattern list, nothing beyond",
	})
	if res.Counters["trees"] < int64(total) || distinct < 1000 {
		fmt.Println("INCONCLUSIVE: coverage floor missed")
		return false
	}
	return len(deaths) == 0
}

func c05Worker(c *core.Ctx) {
	pool, pats := c05Pools(c)
	res := core.NewShardResult()
	wl := core.OpenWLog()
	total := 1 << uint(len(pool))
	base := c.TempDir("c05-")
	defer os.RemoveAll(base)
	for mask := 0; mask < total; mask++ {
		if mask%c.NShards != c.Shard {
			continue
		}
		blk := mask / 64
		if blk < wl.Start {
			continue
		}
		if mask%64 == c.Shard%64 || mask%64 < c.NShards {
			wl.Block(blk)
		}
		cs := c05case{Mask: mask, Patterns: pats}
		for i, f := range pool {
			if mask&(1<<uint(i)) != 0 {
				cs.Files = append(cs.Files, f)
			}
		}
		if !wl.Begin(blk, mask%64, func() any { return cs }) {
			continue
		}
		// (the project sits below a dot-directory: only the path relative to the spokfile counts as hidden)
		// and its own name may hold characters that mean something inside a pattern
		root := filepath.Join(base, ".dotted.parent", fmt.Sprintf([]string{"t%d", "t[1]%d", "t{old}%d", "t*%d?", "t %d"}[mask%5], mask))
		res.Seen("project_directory_spellings", []string{"plain", "[1]", "{old}", "*?", "blank"}[mask%5])
		for _, v := range c05Judge(root, cs, res) {
			v.Case = core.JSON(cs)
			res.Violate(v)
		}
		_ = os.RemoveAll(root)
		res.Count("trees", 1)
	}
	core.WriteResult(res)
}

func c05Expand(root, text string) (map[string][]string, error) {
	tree, err := parser.New(text).Parse()
	if err != nil {
		return nil, fmt.Errorf("parse: %w", err)
	}
	sf, err := file.New(tree, root, nullLogger{})
	if err != nil {
		return nil, fmt.Errorf("load: %w", err)
	}
	if _, err := sf.Run(iostream.Null(), &recRunner{}, false, "noop"); err != nil {
		return nil, fmt.Errorf("run: %w", err)
	}
	return sf.Globs, nil
}

func c05Judge(root string, cs c05case, res *core.ShardResult) (vs []core.Violation) {
	files := map[string]string{}
	var links [][2]string
	for _, f := range cs.Files {
		if name, target, ok := strings.Cut(f, "@"); ok {
			if target == "" {
				target = "a.js"
			}
			links = append(links, [2]string{name, target})
			continue
		}
		files[f] = "content of " + f
	}
	_ = os.MkdirAll(root, 0o755)
	if err := core.WriteFiles(root, files); err != nil {
		core.Fatal("c05: %v", err)
	}
	// marker files that other tools give a meaning to; to a glob they are files like any other
	if cs.Mask%3 == 1 {
		_ = core.WriteFiles(root, map[string]string{"src/CACHEDIR.TAG": "Signature: 8a477f597d28d172789f06886806bc55\n# This file is a cache directory tag.\n"})
		res.Count("trees_with_a_cachedir_tag", 1)
	}
	if cs.Mask%4 == 2 {
		_ = core.WriteFiles(root, map[string]string{".gitignore": "src/\n*.ts\nlib\nzz.js\n", "lib/.ignore": "*\n"})
		res.Count("trees_with_ignore_files", 1)
	}
	if cs.Mask%3 == 2 {
		// directories that other tools leave out by name: to a glob they are directories like any other
		_ = core.WriteFiles(root, map[string]string{"vendor/v.js": "v", "node_modules/m/n.js": "n", "__pycache__/p.js": "p", "target/t.js": "t", "build/b.ts": "b", "dist/d.js": "d", "src/vendor/w.js": "w"})
		res.Count("trees_with_vendor_like_directories", 1)
	}
	for _, l := range links {
		// dangling whenever the target is not part of the tree; "ld" links to the directory src, whose
		// files are then also reached as ld/...
		_ = os.Symlink(l[1], filepath.Join(root, l[0]))
	}
	text := c05Spokfile(cs.Patterns)
	_ = os.WriteFile(filepath.Join(root, "spokfile"), []byte(text), 0o644)
	bad := func(clause, key, format string, args ...any) {
		vs = append(vs, core.Violation{Property: "C05", Clause: clause, Key: key, Detail: fmt.Sprintf(format, args...) + fmt.Sprintf(" (tree %v)", cs.Files)})
	}
	g1, err := c05Expand(root, text)
	if err != nil {
		bad("expansion-succeeds", fmt.Sprintf("%v", cs.Files), "expansion failed: %v", err)
		return
	}
	g2, err := c05Expand(root, text)
	if err != nil {
		bad("expansion-succeeds", fmt.Sprintf("%v", cs.Files), "second expansion failed: %v", err)
		return
	}
	for _, p := range cs.Patterns {
		res.Evaluations++
		// the spokfile itself and spok's cache are part of the tree too
		want := ref.Denotation(root, p)
		got := regularFiles(g1[p])
		got2 := regularFiles(g2[p])
		key := fmt.Sprintf("%s|%v", p, cs.Files)
		if !equalStrings(got, got2) {
			bad("same-on-every-expansion", key, "pattern %q expanded to %v, then to %v on the unchanged tree", p, rels(root, got), rels(root, got2))
			continue
		}
		for _, e := range g1[p] {
			if _, err := os.Lstat(e); err != nil {
				bad("no-non-matching-file", key, "pattern %q expanded to %q which does not exist", p, e)
			}
		}
		if !equalStrings(got, want) {
			missing, extra := setDiff(want, got)
			clause := "no-matching-file-omitted"
			if len(missing) == 0 {
				clause = "no-non-matching-file"
			}
			bad(clause, key, "pattern %q: spok %v, reference %v (missing %v, extra %v)", p, rels(root, got), rels(root, want), rels(root, missing), rels(root, extra))
			continue
		}
		if len(want) > 0 {
			res.Distinct(core.Hash64(key))
			res.Count("nonempty_denotations", 1)
			if len(want) >= 3 {
				res.Sample(map[string]any{"tree": cs.Files, "pattern": p, "denotation": rels(root, want)}, 3)
			}
		} else {
			res.Count("empty_denotations", 1)
		}
	}
	return
}

func regularFiles(paths []string) []string {
	var out []string
	for _, p := range paths {
		if st, err := os.Stat(p); err == nil && st.Mode().IsRegular() { // follows links: a link to a file is a file
			out = append(out, p)
		}
	}
	sort.Strings(out)
	// duplicates within one expansion would be a defect of its own; keep them visible
	return out
}

func rels(root string, paths []string) []string {
	var out []string
	for _, p := range paths {
		r, err := filepath.Rel(root, p)
		if err != nil {
			r = p
		}
		out = append(out, r)
	}
	return out
}

func equalStrings(a, b []string) bool {
	if len(a) != len(b) {
		return false
	}
	for i := range a {
		if a[i] != b[i] {
			return false
		}
	}
	return true
}

func setDiff(want, got []string) (missing, extra []string) {
	w := map[string]bool{}
	g := map[string]bool{}
	for _, x := range want {
		w[x] = true
	}
	for _, x := range got {
		g[x] = true
	}
	for _, x := range want {
		if !g[x] {
			missing = append(missing, x)
		}
	}
	for _, x := range got {
		if !w[x] {
			extra = append(extra, x)
		}
	}
	return
}

func c05Replay(c *core.Ctx, v core.Violation) []core.Violation {
	var cs c05case
	if err := json.Unmarshal(v.Case, &cs); err != nil {
		core.Fatal("replay: %v", err)
	}
	root := c.TempDir("c05r-")
	defer os.RemoveAll(root)
	vs := c05Judge(root, cs, core.NewShardResult())
	for i := range vs {
		vs[i].Case = v.Case
	}
	return vs
}
