package props

// C13: variables reach commands with their spokfile value, by template and by environment.

import (
	"encoding/json"
	"fmt"
	"os"
	"path/filepath"
	"strings"

	"verif/harness/core"
)

func init() {
	register("C13", &Engine{Run: c13Run, Replay: c13Replay})
}

type c13var struct {
	Name  string   `json:"name"`
	Kind  string   `json:"kind"` // string | join | exec | execfail
	Text  string   `json:"text,omitempty"`
	Parts []string `json:"parts,omitempty"`
	Out   string   `json:"out,omitempty"` // what the exec command prints
}

type c13case struct {
	Vars    []c13var          `json:"vars"`
	Ambient map[string]string `json:"ambient"` // environment of the invocation
	DotEnv  map[string]string `json:"dotenv"`  // .env file next to the spokfile
	Lits    [][2]string       `json:"lits"`    // literal text before/after each reference
	FromSub bool              `json:"from_subdir"`
	Redef   map[string]string `json:"redefined"` // string variables given a new value between the two tasks
	Clobber bool              `json:"clobber"`   // a further task whose commands assign/unset shell variables of the same names
	Counter bool              `json:"counter"`   // two exec variables with the same, non-idempotent command text
}

func (k c13case) key() string { b, _ := json.Marshal(k); return string(b) }

var c13Names = []string{"FOO", "BAR", "HOME_DIR", "version", "out_dir", "X", "PATHX", "LANGX", "my_var", "TARGET",
	// names a tool might want for values of its own
	"OS", "ARCH", "TASK", "NAME", "ROOT", "CWD", "SPOK", "GOOS", "DIR", "ARGS", "SPOKFILE"}

// value alphabet: printable ASCII without both quote characters
var c13Chars = []string{"a", "Z", "0", " ", "  ", "$", "{", "}", "\\", "%", "-", "/", ".", "*", "<", ">", "&", "|", ";", "(", ")", "=", "~", "!", "?", "[", "]", "^", "@", ",", ":", "+", "_", "%s", "$HOME", "${X}", "{{", "}}", "\\n", "`",
	// text that looks like a reference to another variable: a value is never expanded again
	"{{.FOO}}", "{{.X}}", "{{.NAME}}", "{{ .BAR }}", "$FOO", "${BAR}"}

func c13Value(r *core.Rng) string {
	n := r.Range(0, 6)
	var b strings.Builder
	if r.Chance(15) {
		b.WriteString("-")
	}
	for i := 0; i < n; i++ {
		b.WriteString(core.Pick(r, c13Chars))
	}
	return b.String()
}

// literal command text around a reference: ASCII without quotes, '}' and '#'
var c13LitChars = []string{"a", "b", "7", " ", "-", "/", ".", "=", ":", "_", "+", ",", "%", "@", "x y", "--flag=", "$", "{ "}

func c13Lit(r *core.Rng) string {
	n := r.Range(0, 3)
	var b strings.Builder
	for i := 0; i < n; i++ {
		b.WriteString(core.Pick(r, c13LitChars))
	}
	return b.String()
}

func c13Gen(r *core.Rng) c13case {
	k := c13case{Ambient: map[string]string{}, DotEnv: map[string]string{}}
	n := r.Range(0, 6)
	names := append([]string{}, c13Names...)
	core.Shuffle(r, names)
	failAt := -1
	if r.Chance(8) && n > 0 {
		failAt = r.Intn(n)
	}
	for i := 0; i < n; i++ {
		v := c13var{Name: names[i]}
		switch kind := r.Intn(10); {
		case i == failAt:
			v.Kind = "execfail"
			v.Text = core.Pick(r, []string{"exit 3", "false", "printf oops && exit 1"})
		case kind < 5:
			v.Kind = "string"
			v.Text = c13Value(r)
		case kind < 8:
			v.Kind = "join"
			m := r.Range(0, 4)
			for j := 0; j < m; j++ {
				v.Parts = append(v.Parts, core.Pick(r, []string{"", ".", "..", "a", "b c", "bin", "/abs", "/", "x/../y", "dir/", "./rel", "a//b", "/a/../b", "/abs/./x/"}))
			}
		default:
			v.Kind = "exec"
			core := core.Pick(r, []string{"hello", "two words", "v1.2.3", "a\tb", "", "x  y", "n-1", "100%%", "line one\\nline two", "a\\n\\nb  \\n c"})
			lead := []string{"", " ", "  ", "\\n", "\\t", " \\n "}[r.Intn(6)]
			trail := []string{"", " ", "\\n", "\\n\\n", " \\t\\n"}[r.Intn(5)]
			v.Text = "printf '" + lead + core + trail + "'"
			if r.Chance(30) {
				v.Text += " && printf 'noise on stderr' >&2" // not part of the value
			}
			v.Out = strings.TrimSpace(strings.NewReplacer("\\n", "\n", "\\t", "\t", "%%", "%").Replace(lead + core + trail))
		}
		k.Vars = append(k.Vars, v)
		if r.Chance(35) {
			k.Ambient[v.Name] = "ambient-" + v.Name
			if v.Kind == "string" && r.Chance(30) && !strings.ContainsAny(v.Text, "\n") {
				k.Ambient[v.Name] = v.Text // the environment happens to hold the very same value
			}
		}
		if r.Chance(35) {
			k.DotEnv[v.Name] = "dotenv-" + v.Name
			if v.Kind == "string" && r.Chance(30) && v.Text != "" && !strings.ContainsAny(v.Text, " #$\\'`\n") {
				k.DotEnv[v.Name] = v.Text
			}
		}
		before := strings.TrimRight(c13Lit(r), "{") // "{" directly before "{{" would be a template error
		k.Lits = append(k.Lits, [2]string{before, c13Lit(r)})
	}
	// unrelated entries
	if r.Chance(50) {
		k.Ambient["UNRELATED_AMBIENT"] = "u1"
	}
	if r.Chance(50) {
		k.DotEnv["UNRELATED_DOTENV"] = "u2"
	}
	k.FromSub = r.Chance(25)
	k.Redef = map[string]string{}
	k.Clobber = failAt < 0 && len(k.Vars) > 0 && r.Chance(25)
	k.Counter = failAt < 0 && r.Chance(15)
	if failAt < 0 && !k.Clobber {
		for _, v := range k.Vars {
			if r.Chance(30) {
				k.Redef[v.Name] = c13Value(r) + "!"
			}
		}
	}
	return k
}

func (k c13case) text() string {
	var b strings.Builder
	if k.Counter {
		// the same command text twice: each exec is evaluated on its own
		b.WriteString("CNT_A := exec(\"printf x >> @CNT@ && wc -c < @CNT@\")\n")
		b.WriteString("CNT_B := exec(\"printf x >> @CNT@ && wc -c < @CNT@\")\n")
	}
	for _, v := range k.Vars {
		switch v.Kind {
		case "string":
			fmt.Fprintf(&b, "%s := \"%s\"\n", v.Name, v.Text)
		case "join":
			var ps []string
			for _, p := range v.Parts {
				ps = append(ps, `"`+p+`"`)
			}
			fmt.Fprintf(&b, "%s := join(%s)\n", v.Name, strings.Join(ps, ", "))
		case "exec", "execfail":
			fmt.Fprintf(&b, "%s := exec(\"%s\")\n", v.Name, v.Text)
		}
	}
	b.WriteString("\ntask show() {\n")
	for i, v := range k.Vars {
		fmt.Fprintf(&b, "    printf '%%s\\n' '%s{{.%s}}%s'\n", k.Lits[i][0], v.Name, k.Lits[i][1])
		// the shell's own expansion, and what a program started by the command finds in its environment
		fmt.Fprintf(&b, "    printf '%%s\\n' \"$%s\" && printenv %s\n", v.Name, v.Name)
	}
	b.WriteString("    printf '%s\\n' done\n")
	b.WriteString("}\n")
	if k.Clobber {
		// every command is a shell of its own: what one command assigns or unsets is gone in the next
		b.WriteString("\ntask clobber() {\n")
		for _, v := range k.Vars {
			fmt.Fprintf(&b, "    %s=clobbered-in-an-earlier-command\n", v.Name)
			fmt.Fprintf(&b, "    printf '%%s\\n' \"$%s\"\n", v.Name)
			fmt.Fprintf(&b, "    unset %s\n", v.Name)
			fmt.Fprintf(&b, "    printf '%%s\\n' \"$%s\"\n", v.Name)
		}
		b.WriteString("}\n")
	}
	if len(k.Redef) > 0 {
		// the same names get new values, then a second task with the very same command lines
		b.WriteString("\n")
		for _, v := range k.Vars {
			if nv, ok := k.Redef[v.Name]; ok {
				fmt.Fprintf(&b, "%s := \"%s\"\n", v.Name, nv)
			}
		}
		b.WriteString("\ntask showb() {\n")
		for i, v := range k.Vars {
			fmt.Fprintf(&b, "    printf '%%s\\n' '%s{{.%s}}%s'\n", k.Lits[i][0], v.Name, k.Lits[i][1])
			fmt.Fprintf(&b, "    printf '%%s\\n' \"$%s\" && printenv %s\n", v.Name, v.Name)
		}
		b.WriteString("    printf '%s\\n' done\n")
		b.WriteString("}\n")
	}
	return b.String()
}

// expected value of a variable, computed by the harness.
func (k c13case) expect(v c13var, cwd string) string {
	switch v.Kind {
	case "string":
		return v.Text
	case "join":
		j := filepath.Join(v.Parts...)
		if !filepath.IsAbs(j) {
			j = filepath.Join(cwd, j)
		}
		return filepath.Clean(j)
	case "exec":
		return v.Out
	}
	return ""
}

func c13Judge(c *core.Ctx, k c13case, res *core.ShardResult) (vs []core.Violation) {
	sb := newSandbox(c.TempDir("c13-"))
	defer os.RemoveAll(sb.Root)
	cnt := filepath.Join(sb.Root, "counter")
	text := strings.ReplaceAll(k.text(), "@CNT@", cnt)
	_ = os.WriteFile(filepath.Join(sb.Proj, "spokfile"), []byte(text), 0o644)
	cwd := sb.Proj
	if k.FromSub {
		cwd = filepath.Join(sb.Proj, "nested", "dir")
		_ = os.MkdirAll(cwd, 0o755)
	}
	if len(k.DotEnv) > 0 {
		var b strings.Builder
		for n, v := range k.DotEnv {
			fmt.Fprintf(&b, "%s=%s\n", n, v)
		}
		_ = os.WriteFile(filepath.Join(sb.Proj, ".env"), []byte(b.String()), 0o644)
	}
	var env []string
	for n, v := range k.Ambient {
		env = append(env, n+"="+v)
	}
	bad := func(clause, format string, args ...any) {
		vs = append(vs, core.Violation{Property: "C13", Clause: clause, Key: k.key(), Detail: fmt.Sprintf(format, args...) + fmt.Sprintf("\nambient %v .env %v cwd-nested %v\nspokfile:\n%s", k.Ambient, k.DotEnv, k.FromSub, text)})
	}
	run := func(args ...string) core.Invocation {
		res.Evaluations++
		_ = os.Remove(cnt)
		return core.RunSpok(core.SpokOpts{Bin: c.SpokRace(), Dir: cwd, Home: sb.Home, Args: args, Env: env})
	}
	hasFail := false
	for _, v := range k.Vars {
		if v.Kind == "execfail" {
			hasFail = true
		}
	}
	runArgs := []string{"--json", "show"}
	if len(k.Redef) > 0 {
		runArgs = append(runArgs, "showb")
	}
	invRun := run(runArgs...)
	invVars := run("--vars")
	for _, inv := range []core.Invocation{invRun, invVars} {
		if inv.Crashed() || inv.Race || inv.TimedOut {
			bad("binary-no-crash", "spok crashed, raced or hung: %s", core.Trunc(inv.Stderr, 600))
			return
		}
	}
	if hasFail {
		res.Count("failing_exec_cases", 1)
		invShow := run("--show")
		for name, inv := range map[string]core.Invocation{"run": invRun, "--vars": invVars, "--show": invShow} {
			if inv.Exit == 0 {
				bad("failing-exec-is-an-error", "an exec(...) exits non-zero but `spok %s` exited 0", name)
				return
			}
		}
		res.Distinct(core.Hash64(k.key()))
		return
	}
	if invRun.Exit != 0 {
		bad("run-succeeds", "spok --json show failed (exit %d): %s", invRun.Exit, core.Trunc(invRun.Stderr, 400))
		return
	}
	var jr []jsonResult
	want := 1
	if len(k.Redef) > 0 {
		want = 2
	}
	if err := json.Unmarshal([]byte(strings.TrimSpace(invRun.Stdout)), &jr); err != nil || len(jr) != want {
		bad("run-report", "unexpected --json output: %v %s", err, core.Trunc(invRun.Stdout, 300))
		return
	}
	byTask := map[string]jsonResult{}
	for _, r := range jr {
		byTask[r.Task] = r
	}
	cmds := byTask["show"].Results
	if len(k.Redef) > 0 {
		// the second task, defined after the redefinitions, sees the new values in its templates and in
		// its environment; the first task's templates saw the values defined before it (its environment
		// is not judged there: which of the two values it should hold is not stated)
		later := byTask["showb"].Results
		if len(later) != 2*len(k.Vars)+1 {
			bad("run-report", "%d command results for showb, want %d", len(later), 2*len(k.Vars)+1)
			return
		}
		for i, v := range k.Vars {
			nv, ok := k.Redef[v.Name]
			if !ok {
				nv = k.expect(v, cwd)
			}
			wantCmd := fmt.Sprintf("printf '%%s\\n' '%s%s%s'", k.Lits[i][0], nv, k.Lits[i][1])
			if later[2*i].Cmd != wantCmd {
				bad("template-substitution", "variable %s was redefined as %q before task showb, whose command is %q, want %q", v.Name, nv, later[2*i].Cmd, wantCmd)
				return
			}
			if later[2*i+1].Stdout != nv+"\n"+nv+"\n" {
				bad("environment-has-spokfile-value", "variable %s was redefined as %q before task showb, $%s there is %q", v.Name, nv, v.Name, strings.TrimSuffix(later[2*i+1].Stdout, "\n"))
				return
			}
		}
		res.Count("redefinition_cases", 1)
	}
	if len(cmds) != 2*len(k.Vars)+1 {
		bad("run-report", "%d command results, want %d", len(cmds), 2*len(k.Vars)+1)
		return
	}
	// join is evaluated relative to the process working directory
	for i, v := range k.Vars {
		want := k.expect(v, cwd)
		tpl := cmds[2*i]
		envc := cmds[2*i+1]
		wantCmd := fmt.Sprintf("printf '%%s\\n' '%s%s%s'", k.Lits[i][0], want, k.Lits[i][1])
		if tpl.Cmd != wantCmd {
			bad("template-substitution", "variable %s (%s): command text after substitution is %q, want %q", v.Name, v.Kind, tpl.Cmd, wantCmd)
			return
		}
		if tpl.Stdout != k.Lits[i][0]+want+k.Lits[i][1]+"\n" {
			bad("text-reaches-shell-unchanged", "variable %s: the shell printed %q for %q", v.Name, tpl.Stdout, k.Lits[i][0]+want+k.Lits[i][1])
			return
		}
		if _, redefined := k.Redef[v.Name]; !redefined && envc.Stdout != want+"\n"+want+"\n" {
			bad("environment-has-spokfile-value", "variable %s (%s) = %q but the command's output of \"$%s\" and of `printenv` is %q (ambient %q, .env %q)", v.Name, v.Kind, want, v.Name, envc.Stdout, k.Ambient[v.Name], k.DotEnv[v.Name])
			return
		}
		res.Count("variables_checked", 1)
		res.Seen("kinds", v.Kind)
		if _, ok := k.Ambient[v.Name]; ok {
			res.Count("variables_shadowing_ambient", 1)
		}
		if _, ok := k.DotEnv[v.Name]; ok {
			res.Count("variables_shadowing_dotenv", 1)
		}
	}
	if len(k.Vars) > 0 && len(k.Lits)%4 == 1 {
		// text that is not a template spok can evaluate, next to a reference that is: either the whole
		// spokfile is refused or the reference is substituted - it never reaches the shell as written
		withTpl := text + fmt.Sprintf("\ntask tpl() {\n    printf '%%s' '{{json .Config}} {{.%s}}'\n}\n", k.Vars[0].Name)
		_ = os.WriteFile(filepath.Join(sb.Proj, "spokfile"), []byte(withTpl), 0o644)
		invT := run("--json", "tpl")
		_ = os.WriteFile(filepath.Join(sb.Proj, "spokfile"), []byte(text), 0o644)
		if invT.Exit == 0 && strings.Contains(invT.Stdout, "{{."+k.Vars[0].Name+"}}") {
			bad("template-substitution", "a command that also holds text spok cannot evaluate as a template was run with its reference {{.%s}} unsubstituted: %s", k.Vars[0].Name, core.Trunc(invT.Stdout, 300))
			return
		}
		res.Count("foreign_template_cases", 1)
	}
	if k.Clobber {
		invC := run("--json", "clobber")
		var jc []jsonResult
		if invC.Exit != 0 || json.Unmarshal([]byte(strings.TrimSpace(invC.Stdout)), &jc) != nil || len(jc) != 1 || len(jc[0].Results) != 4*len(k.Vars) {
			bad("run-report", "spok --json clobber: exit %d, output %s %s", invC.Exit, core.Trunc(invC.Stdout, 200), core.Trunc(invC.Stderr, 200))
			return
		}
		for i, v := range k.Vars {
			want := k.expect(v, cwd)
			for _, j := range []int{4*i + 1, 4*i + 3} {
				if got := jc[0].Results[j].Stdout; got != want+"\n" {
					bad("environment-has-spokfile-value", "variable %s = %q, but after an earlier command of the same task assigned/unset a shell variable of that name a later command sees $%s = %q", v.Name, want, v.Name, strings.TrimSuffix(got, "\n"))
					return
				}
			}
		}
		res.Count("clobber_cases", 1)
	}
	// --vars lists name -> value
	if invVars.Exit != 0 {
		bad("vars-succeeds", "spok --vars failed: %s", core.Trunc(invVars.Stderr, 300))
		return
	}
	listed := map[string]string{}
	for _, line := range strings.Split(invVars.Stdout, "\n") {
		var f []string
		for _, x := range strings.Split(line, "\t") {
			if x != "" {
				f = append(f, x)
			}
		}
		if len(f) >= 1 {
			listed[strings.TrimSpace(f[0])] = strings.Join(f[1:], "\t")
		}
	}
	if k.Counter {
		if strings.TrimSpace(listed["CNT_A"]) != "1" || strings.TrimSpace(listed["CNT_B"]) != "2" {
			bad("exec-evaluated-each-time", "two exec variables with the same command text (append one byte, print the size) are %q and %q, want 1 and 2", listed["CNT_A"], listed["CNT_B"])
			return
		}
		res.Count("counter_cases", 1)
	}
	for _, v := range k.Vars {
		want := k.expect(v, cwd)
		if nv, ok := k.Redef[v.Name]; ok {
			want = nv
		}
		got, ok := listed[v.Name]
		if i := strings.Index(want, "\n"); i >= 0 {
			want = want[:i] // the listing is read line by line: a value of several lines is compared by its first
		}
		if !ok || strings.TrimSpace(got) != strings.TrimSpace(want) {
			bad("vars-lists-value", "--vars shows %q for %s, want %q (output %q)", got, v.Name, want, core.Trunc(invVars.Stdout, 400))
			return
		}
	}
	if len(k.Vars) > 0 {
		res.Distinct(core.Hash64(k.key()))
		res.Sample(map[string]any{"spokfile": text, "ambient": k.Ambient, "dotenv": k.DotEnv}, 2)
	}
	return
}

// c13ShellNames: one variable per invocation whose name the shell, the C library or common tools give a
// meaning to. The template and the environment a child program sees (printenv) must hold the spokfile's
// value for every one of them; the shell's own "$NAME" expansion too, except for the parameters a POSIX
// shell computes itself (PPID, LINENO). Witness keys are "shell-maintained:<NAME>".
var c13ShellNameList = []string{"HOME", "PWD", "IFS", "PATH", "UID", "EUID", "GID", "PPID", "RANDOM", "SECONDS", "LINENO", "OPTIND", "OPTARG", "OLDPWD",
	"HOSTNAME", "SHLVL", "SHELL", "USER", "LOGNAME", "LANG", "LC_ALL", "TERM", "TMPDIR", "BASH", "ENV", "CDPATH", "REPLY", "FUNCNAME", "GOFLAGS", "GOCACHE", "EDITOR", "TZ"}

func c13ShellNames(c *core.Ctx) *core.ShardResult {
	out := make([]*core.ShardResult, len(c13ShellNameList))
	core.ParallelFor(len(c13ShellNameList), c.NCPU, func(i int) {
		res := core.NewShardResult()
		out[i] = res
		name := c13ShellNameList[i]
		val := "spokfile value of " + name
		if name == "PATH" {
			val = "/usr/local/bin:/usr/bin:/bin:/spokfile-value-of-PATH"
		}
		sb := newSandbox(c.TempDir("c13s-"))
		defer os.RemoveAll(sb.Root)
		text := fmt.Sprintf("%s := \"%s\"\n\ntask show() {\n    printf '%%s\\n' '<{{.%s}}>'\n    printf '%%s\\n' \"$%s\"\n    printenv %s\n}\n", name, val, name, name, name)
		_ = os.WriteFile(filepath.Join(sb.Proj, "spokfile"), []byte(text), 0o644)
		inv := core.RunSpok(core.SpokOpts{Bin: c.SpokRace(), Dir: sb.Proj, Home: sb.Home, Args: []string{"--json", "show"}, Env: []string{name + "=ambient value of " + name}})
		res.Evaluations++
		bad := func(clause, format string, args ...any) {
			res.Violate(core.Violation{Property: "C13", Clause: clause, Key: "shell-maintained:" + name, Case: core.JSON(map[string]string{"shell_name": name}),
				Detail: fmt.Sprintf(format, args...) + "\nspokfile:\n" + text})
		}
		if inv.Crashed() || inv.Race || inv.TimedOut {
			bad("binary-no-crash", "spok crashed, raced or hung: %s", core.Trunc(inv.Stderr, 500))
			return
		}
		var jr []jsonResult
		if inv.Exit != 0 || json.Unmarshal([]byte(strings.TrimSpace(inv.Stdout)), &jr) != nil || len(jr) != 1 || len(jr[0].Results) != 3 {
			bad("run-succeeds", "spok --json show: exit %d, stdout %s, stderr %s", inv.Exit, core.Trunc(inv.Stdout, 300), core.Trunc(inv.Stderr, 300))
			return
		}
		r := jr[0].Results
		if r[0].Stdout != "<"+val+">\n" {
			bad("template-substitution", "variable %s = %q but the command printed %q for '<{{.%s}}>'", name, val, r[0].Stdout, name)
			return
		}
		if r[2].Stdout != val+"\n" {
			bad("environment-has-spokfile-value", "variable %s = %q but a program started by the command finds %q in its environment (printenv %s)", name, val, strings.TrimSuffix(r[2].Stdout, "\n"), name)
			return
		}
		if name != "PPID" && name != "LINENO" && r[1].Stdout != val+"\n" {
			bad("environment-has-spokfile-value", "variable %s = %q but \"$%s\" in the command expands to %q", name, val, name, strings.TrimSuffix(r[1].Stdout, "\n"))
			return
		}
		res.Count("shell_named_variables_checked", 1)
		res.Distinct(core.Hash64("shell-name", name))
	})
	total := core.NewShardResult()
	for _, o := range out {
		total.Merge(o)
	}
	return total
}

func c13Run(c *core.Ctx) bool {
	n := c.Q(700, 8000)
	results := make([]*core.ShardResult, n)
	core.ParallelFor(n, c.NCPU, func(i int) {
		results[i] = core.NewShardResult()
		k := c13Gen(c.Rng(core.StrKey("c13"), uint64(i)))
		for _, v := range c13Judge(c, k, results[i]) {
			v.Case = core.JSON(k)
			results[i].Violate(v)
		}
	})
	total := core.NewShardResult()
	for _, r := range results {
		total.Merge(r)
	}
	total.Merge(c13ShellNames(c))
	reportAll(c, total)
	distinct := total.DistinctCount()
	cov := map[string]any{
		"evaluations":         total.Evaluations,
		"distinct_nontrivial": distinct,
		"rule":                "random variable sets (0-6 variables: strings over printable ASCII without quote characters incl. blanks $ { } \\ % leading '-', join of 0-4 parts incl. '', '.', '..', absolute, exec of printf commands with surrounding blanks/newlines, sometimes one failing exec; names that are also set, with other values, in the ambient environment and/or the .env file) and a task whose commands print '<lit>{{.NAME}}<lit>' (inside single quotes) and \"$NAME\" and run `printenv NAME` (a child program's view of the environment) for every variable; values may hold text that looks like a reference ({{.FOO}}, $FOO); plus one invocation per variable name that the shell, the C library or common tools give a meaning to (HOME, PATH, PWD, IFS, UID, LANG, TMPDIR, ... 32 names); race-built binary with --json and --vars, from the project root or a nested directory; compared with direct textual substitution. evaluations = spok invocations; non-trivial = distinct programs with >=1 variable that passed every comparison (or whose failing exec made every action fail)",
		"samples":             total.Samples,
		"counters":            total.Counters,
		"variable_kinds_seen": total.SetValues("kinds"),
		"exhaustive":          false,
	}
	c.WriteEvidence("exploration", cov, []string{
		"expected values are computed by the harness: string = the text between the quotes; join = filepath.Join made absolute against the invocation's working directory and cleaned; exec = the known output with surrounding whitespace trimmed",
		"references sit inside single quotes so that every quote-free value is inert for the shell; names referenced from commands are ASCII",
	})
	if distinct < 100 || total.Counters["variables_shadowing_ambient"] == 0 || total.Counters["variables_shadowing_dotenv"] == 0 || total.Counters["failing_exec_cases"] == 0 {
		fmt.Println("INCONCLUSIVE: coverage floor missed")
		return false
	}
	return true
}

func c13Replay(c *core.Ctx, v core.Violation) []core.Violation {
	var sn struct {
		Name string `json:"shell_name"`
	}
	if json.Unmarshal(v.Case, &sn) == nil && sn.Name != "" {
		var vs []core.Violation
		for _, x := range c13ShellNames(c).Violations {
			if x.Key == "shell-maintained:"+sn.Name {
				vs = append(vs, x)
			}
		}
		return vs
	}
	var k c13case
	if err := json.Unmarshal(v.Case, &k); err != nil {
		core.Fatal("replay: %v", err)
	}
	vs := c13Judge(c, k, core.NewShardResult())
	for i := range vs {
		vs[i].Case = v.Case
	}
	return vs
}
