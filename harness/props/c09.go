package props

// C09: a failing command fails the invocation and is never recorded as success.
// Driven through the race-built binary.

import (
	"encoding/json"
	"fmt"
	"os"
	"path/filepath"
	"strings"

	"verif/harness/core"
)

func init() {
	register("C09", &Engine{Run: c09Run, Replay: c09Replay})
}

type c09cmd struct {
	Fail   bool   `json:"fail"`
	Form   string `json:"form"` // exit | false | missing | sh
	Status int    `json:"status"`
}

type c09task struct {
	Name string   `json:"name"`
	Deps []string `json:"deps"` // task dependencies
	File string   `json:"file"` // file dependency
	Cmds []c09cmd `json:"cmds"`
}

type c09case struct {
	Tasks []c09task `json:"tasks"`
	Req   []string  `json:"req"`
	Flags []string  `json:"flags"`
	Prior bool      `json:"prior_success"`              // every task has succeeded on these inputs before the failing (forced) run
	Clean bool      `json:"via_clean"`                  // the last task is named clean and is run through `spok --clean`
	Deflt bool      `json:"via_default"`                // the last task is named default and is run by giving no task names
	Env   int       `json:"ambient_env"`                // core.HostileEnv variant
	Edit  bool      `json:"edited_after_prior_success"` // after the prior success every dependency file is edited, then the run fails on the new content
}

func (k c09case) key() string { b, _ := json.Marshal(k); return string(b) }

var c09Names = []string{"alpha", "beta", "gamma", "delta"}

func c09Gen(r *core.Rng) c09case {
	n := r.Range(1, 4)
	var k c09case
	for i := 0; i < n; i++ {
		// ("/dep.txt": a leading slash still means the file next to the spokfile)
		t := c09task{Name: c09Names[i], File: core.Pick(r, []string{"dep.txt", "other.txt", c09Names[i] + ".txt", "/dep.txt"})}
		for j := 0; j < i; j++ {
			if r.Chance(40) {
				t.Deps = append(t.Deps, c09Names[j])
			}
		}
		m := r.Range(1, 4)
		for j := 0; j < m; j++ {
			t.Cmds = append(t.Cmds, c09cmd{})
		}
		k.Tasks = append(k.Tasks, t)
	}
	// a non-empty seeded subset of commands fails
	nfail := 1
	if r.Chance(40) {
		nfail = r.Range(2, 4)
	}
	for f := 0; f < nfail; f++ {
		t := &k.Tasks[r.Intn(len(k.Tasks))]
		c := &t.Cmds[r.Intn(len(t.Cmds))]
		c.Fail = true
		c.Form = core.Pick(r, []string{"exit", "exit", "false", "missing", "sh", "signal", "noexec", "badinterp"})
		// (statuses that shells, CI systems and test runners give a meaning to: 126/127 not executable/found,
		// 128+n signals - 130 INT, 137 KILL, 141 PIPE, 143 TERM -, 125 git-bisect skip, 77 automake skip, 75 tempfail)
		c.Status = core.Pick(r, []int{1, 2, 3, 127, 255, 126, 128, 130, 137, 141, 143, 125, 77, 75, 64, 254, r.Range(1, 255), r.Range(1, 255)})
		switch c.Form {
		case "false":
			c.Status = 1
		case "missing":
			c.Status = 127
		case "signal":
			c.Status = 137
		case "noexec", "badinterp":
			c.Status = 126
		}
	}
	// request: the last task (pulls in dependencies) or a random subset
	if r.Chance(50) {
		k.Req = []string{k.Tasks[len(k.Tasks)-1].Name}
	} else {
		for _, t := range k.Tasks {
			if r.Chance(60) {
				k.Req = append(k.Req, t.Name)
			}
		}
		if len(k.Req) == 0 {
			k.Req = []string{k.Tasks[0].Name}
		}
	}
	k.Env = r.Intn(4)
	k.Flags = core.Pick(r, [][]string{nil, {"--quiet"}, {"--json"}, {"--force"}, {"--quiet", "--force"}, {"--json", "--force"}})
	for _, f := range k.Flags {
		if f == "--force" && r.Chance(50) {
			k.Prior = true
		}
	}
	if !k.Prior && r.Chance(30) {
		k.Prior, k.Edit = true, true
	}
	if !k.Prior && r.Chance(10) {
		last := &k.Tasks[len(k.Tasks)-1]
		last.Name = "default"
		k.Req = []string{"default"}
		k.Deflt = true
		fails := false
		for _, cmd := range last.Cmds {
			fails = fails || cmd.Fail
		}
		if !fails && r.Bool() {
			last.Cmds[len(last.Cmds)-1] = c09cmd{Fail: true, Form: "exit", Status: 4}
		}
	} else if !k.Prior && r.Chance(12) {
		// a user-defined clean task is an executed task like any other
		last := &k.Tasks[len(k.Tasks)-1]
		last.Name = "clean"
		k.Req = []string{"clean"}
		k.Clean = true
		fails := false
		for _, cmd := range last.Cmds {
			fails = fails || cmd.Fail
		}
		if !fails {
			last.Cmds[0] = c09cmd{Fail: true, Form: "exit", Status: 3}
		}
	}
	return k
}

func (k c09case) text(sb *sandbox) string {
	var b strings.Builder
	for _, t := range k.Tasks {
		deps := append([]string{}, t.Deps...)
		deps = append(deps, `"`+t.File+`"`)
		fmt.Fprintf(&b, "task %s(%s) {\n", t.Name, strings.Join(deps, ", "))
		for i, c := range t.Cmds {
			body := "true"
			if c.Fail {
				flag := fmt.Sprintf("%s/fail.%s.%d", sb.Flags, t.Name, i)
				switch c.Form {
				case "exit":
					body = fmt.Sprintf("test ! -e %s || exit %d", flag, c.Status)
				case "false":
					body = fmt.Sprintf("test ! -e %s || false", flag)
				case "missing":
					body = fmt.Sprintf("test ! -e %s || nosuchprogram_verif_c09", flag)
				case "sh":
					body = fmt.Sprintf("test ! -e %s || sh -c 'exit %d'", flag, c.Status)
				case "signal":
					// the child shell kills itself: the command ends by signal, not by exit
					body = fmt.Sprintf("test ! -e %s || sh -c 'kill -9 $$'", flag)
				case "noexec":
					// a program that exists but may not be executed
					body = fmt.Sprintf("test ! -e %s || %s/noexec.sh", flag, sb.Proj)
				case "badinterp":
					// a script whose interpreter does not exist: the program cannot be started
					body = fmt.Sprintf("test ! -e %s || %s/badinterp.sh", flag, sb.Proj)
				}
			}
			fmt.Fprintf(&b, "    printf '%%s\\n' %s.%d.start >> %s && %s && printf '%%s\\n' %s.%d.ok >> %s\n", t.Name, i, sb.Log, body, t.Name, i, sb.Log)
		}
		b.WriteString("}\n\n")
	}
	return b.String()
}

func (k c09case) closure() []string {
	seen := map[string]bool{}
	var out []string
	var visit func(string)
	visit = func(n string) {
		if seen[n] {
			return
		}
		seen[n] = true
		for _, t := range k.Tasks {
			if t.Name == n {
				for _, d := range t.Deps {
					visit(d)
				}
			}
		}
		out = append(out, n)
	}
	for _, r := range k.Req {
		visit(r)
	}
	return out
}

// logStatus returns for every task whether it started and whether all its commands succeeded.
func (k c09case) logStatus(log []string) (started, ok map[string]bool) {
	have := map[string]bool{}
	for _, l := range log {
		have[l] = true
	}
	started, ok = map[string]bool{}, map[string]bool{}
	for _, t := range k.Tasks {
		all := true
		for i := range t.Cmds {
			if have[fmt.Sprintf("%s.%d.start", t.Name, i)] {
				started[t.Name] = true
			}
			if !have[fmt.Sprintf("%s.%d.ok", t.Name, i)] {
				all = false
			}
		}
		ok[t.Name] = all
	}
	return
}

func c09Judge(c *core.Ctx, k c09case, res *core.ShardResult) (vs []core.Violation) {
	sb := newSandbox(c.TempDir("c09-"))
	defer os.RemoveAll(sb.Root)
	text := k.text(sb)
	_ = os.WriteFile(filepath.Join(sb.Proj, "spokfile"), []byte(text), 0o644)
	for _, f := range []string{"dep.txt", "other.txt"} {
		_ = os.WriteFile(filepath.Join(sb.Proj, f), []byte(f), 0o644)
	}
	_ = os.WriteFile(filepath.Join(sb.Proj, "noexec.sh"), []byte("#!/bin/sh\nexit 0\n"), 0o644)
	_ = os.WriteFile(filepath.Join(sb.Proj, "badinterp.sh"), []byte("#!/nonexistent/interpreter-verif\nexit 0\n"), 0o755)
	for _, t := range k.Tasks {
		_ = os.WriteFile(filepath.Join(sb.Proj, t.File), []byte(t.File), 0o644)
		for i, cmd := range t.Cmds {
			if cmd.Fail {
				_ = os.WriteFile(filepath.Join(sb.Flags, fmt.Sprintf("fail.%s.%d", t.Name, i)), nil, 0o644)
			}
		}
	}
	bad := func(clause, format string, args ...any) {
		vs = append(vs, core.Violation{Property: "C09", Clause: clause, Key: k.key(), Detail: fmt.Sprintf(format, args...) + fmt.Sprintf("\nflags %v request %v\nspokfile:\n%s", k.Flags, k.Req, text)})
	}
	run := func(flags []string) (core.Invocation, []string) {
		_ = os.Remove(sb.Log)
		args := append(append([]string{}, flags...), k.Req...)
		if k.Clean {
			args = append(append([]string{}, flags...), "--clean")
		}
		if k.Deflt {
			args = append([]string{}, flags...) // no task names at all
		}
		inv := core.RunSpok(core.SpokOpts{Bin: c.SpokRace(), Dir: sb.Proj, Home: sb.Home, Args: args, Env: core.HostileEnv(k.Env, sb.Home)})
		res.Evaluations++
		return inv, sb.readLog()
	}
	closure := k.closure()
	inClosure := map[string]bool{}
	for _, n := range closure {
		inClosure[n] = true
	}
	if k.Prior {
		// the tasks first succeed on exactly these inputs; the forced run then fails on them
		flagged, _ := os.ReadDir(sb.Flags)
		for _, e := range flagged {
			_ = os.Rename(filepath.Join(sb.Flags, e.Name()), filepath.Join(sb.Root, "off."+e.Name()))
		}
		if inv0, _ := run(nil); inv0.Exit != 0 {
			bad("no-spurious-failure", "no command fails but spok exited %d: %s", inv0.Exit, core.Trunc(inv0.Stderr, 300))
			return
		}
		for _, e := range flagged {
			_ = os.Rename(filepath.Join(sb.Root, "off."+e.Name()), filepath.Join(sb.Flags, e.Name()))
		}
		res.Count("cases_with_prior_success", 1)
		if k.Edit {
			for _, f := range []string{"dep.txt", "other.txt"} {
				_ = os.WriteFile(filepath.Join(sb.Proj, f), []byte(f+" edited"), 0o644)
			}
			for _, t := range k.Tasks {
				_ = os.WriteFile(filepath.Join(sb.Proj, t.File), []byte(t.File+" edited"), 0o644)
			}
			res.Count("cases_edited_after_prior_success", 1)
		}
	}
	// invocation 1
	inv1, log1 := run(k.Flags)
	if inv1.Crashed() || inv1.Race || inv1.TimedOut {
		bad("binary-no-crash", "spok crashed, raced or hung: %s", core.Trunc(inv1.Stderr, 600))
		return
	}
	started1, ok1 := k.logStatus(log1)
	var failed []string
	for _, n := range closure {
		if started1[n] && !ok1[n] {
			failed = append(failed, n)
		}
	}
	if len(failed) == 0 {
		// no failing command lies in the closure of the request: an ordinary successful run
		res.Count("cases_without_failure_in_closure", 1)
		if inv1.Exit != 0 {
			bad("no-spurious-failure", "no command failed but spok exited %d: %s", inv1.Exit, core.Trunc(inv1.Stderr, 300))
		}
		return
	}
	res.Count("failing_invocations", 1)
	if k.Clean {
		res.Count("failing_invocations_via_clean", 1)
	}
	res.Seen("flags", strings.Join(k.Flags, " "))
	if inv1.Exit == 0 {
		bad("invocation-fails", "commands of %v exited non-zero but spok exited 0 (stdout %s)", failed, core.Trunc(inv1.Stdout, 200))
		return
	}
	named := false
	for _, n := range failed {
		if strings.Contains(inv1.Stderr, `"`+n+`"`) || strings.Contains(inv1.Stderr, "task "+n) {
			named = true
		}
	}
	if !named {
		bad("error-identifies-task", "spok failed (exit %d) but its error names none of the tasks that really failed %v: %s", inv1.Exit, failed, core.Trunc(inv1.Stderr, 400))
		return
	}
	// invocation 2, inputs unchanged, plain: a task that failed is not up to date
	inv2, log2 := run(nil)
	if inv2.Crashed() || inv2.Race {
		bad("binary-no-crash", "second run crashed: %s", core.Trunc(inv2.Stderr, 600))
		return
	}
	started2, _ := k.logStatus(log2)
	// a program that cannot be started is an error of the runner, not a failing command: spok stops the
	// whole invocation there, so the tasks after it are not reached - and independent tasks run in no fixed
	// order, so which ones those are differs from run to run: with such a command in the closure the second
	// run is only required to fail
	stopsRun := false
	for _, t := range k.Tasks {
		for _, cmd := range t.Cmds {
			if cmd.Fail && (cmd.Form == "noexec" || cmd.Form == "badinterp") && inClosure[t.Name] {
				stopsRun = true
			}
		}
	}
	again := 0
	for _, n := range failed {
		if started2[n] {
			again++
		} else if !stopsRun {
			bad("failed-task-not-up-to-date", "task %s failed in the first run (flags %v) but was not run again by the second (exit %d, log %v, stderr %s)", n, k.Flags, inv2.Exit, log2, core.Trunc(inv2.Stderr, 200))
			return
		}
	}
	if again == 0 && !stopsRun {
		bad("failed-task-not-up-to-date", "none of the tasks that failed in the first run (%v, flags %v) was run again by the second (exit %d, log %v, stderr %s)", failed, k.Flags, inv2.Exit, log2, core.Trunc(inv2.Stderr, 200))
		return
	}
	if inv2.Exit == 0 {
		bad("invocation-fails", "the failing commands ran again in the second run but spok exited 0")
		return
	}
	// invocation 3: the commands now succeed; everything that failed must run and the run succeed
	entries, _ := os.ReadDir(sb.Flags)
	for _, e := range entries {
		_ = os.Remove(filepath.Join(sb.Flags, e.Name()))
	}
	inv3, log3 := run(nil)
	started3, ok3 := k.logStatus(log3)
	for _, n := range failed {
		if !started3[n] || !ok3[n] {
			bad("failed-task-not-up-to-date", "task %s failed twice and was not run (to success) once its command succeeds (exit %d log %v)", n, inv3.Exit, log3)
			return
		}
	}
	if inv3.Exit != 0 {
		bad("no-spurious-failure", "no command fails any more but spok exited %d: %s", inv3.Exit, core.Trunc(inv3.Stderr, 300))
		return
	}
	res.Distinct(core.Hash64(k.key()))
	res.Sample(map[string]any{"spokfile": text, "request": k.Req, "flags": k.Flags, "failed": failed, "exit": inv1.Exit, "stderr": inv1.Stderr}, 2)
	return
}

func c09Run(c *core.Ctx) bool {
	n := c.Q(1200, 12000)
	results := make([]*core.ShardResult, n)
	core.ParallelFor(n, c.NCPU, func(i int) {
		results[i] = core.NewShardResult()
		k := c09Gen(c.Rng(core.StrKey("c09"), uint64(i)))
		for _, v := range c09Judge(c, k, results[i]) {
			v.Case = core.JSON(k)
			results[i].Violate(v)
		}
	})
	total := core.NewShardResult()
	for _, r := range results {
		total.Merge(r)
	}
	reportAll(c, total)
	distinct := total.DistinctCount()
	cov := map[string]any{
		"evaluations":         total.Evaluations,
		"distinct_nontrivial": distinct,
		"rule":                "random spokfiles of 1-4 tasks x 1-4 commands (task dependencies, a file dependency each) in which a seeded non-empty subset of commands exits non-zero (exit N, false, a missing program, sh -c 'exit N'; N in {1,2,3,127,255,random}) at any position, in requested tasks or dependencies, under {plain, --quiet, --json, --force, --quiet --force, --json --force}; race-built binary; (in half of the forced cases every task first succeeds on the same inputs); invocation 1 must fail and name a really failed task (ground truth: the commands' own side-effect log), invocation 2 (plain, unchanged inputs) must run every failed task again, invocation 3 (commands repaired) must run them to success. evaluations = spok invocations; non-trivial = distinct programs whose closure contained a failing command and that passed all three invocations",
		"samples":             total.Samples,
		"counters":            total.Counters,
		"flag_sets_seen":      total.SetValues("flags"),
		"exhaustive":          false,
	}
	c.WriteEvidence("exploration", cov, []string{
		"'identifies the failing task' = stderr contains the quoted name of a task whose command really exited non-zero in this invocation",
		"spok keeps running later commands and tasks after a failure; any really failed task may be the one named",
	})
	if distinct < 100 || len(total.SetValues("flags")) < 6 {
		fmt.Println("INCONCLUSIVE: coverage floor missed")
		return false
	}
	return true
}

func c09Replay(c *core.Ctx, v core.Violation) []core.Violation {
	var k c09case
	if err := json.Unmarshal(v.Case, &k); err != nil {
		core.Fatal("replay: %v", err)
	}
	vs := c09Judge(c, k, core.NewShardResult())
	for i := range vs {
		vs[i].Case = v.Case
	}
	return vs
}
