package props

// C04 (the digest is a deterministic, change-sensitive function of the file set)
// and C18 (hashing any path list returns cleanly).
//
// Both run hash.New().Hash(list) of the real package in child workers started
// under taskset (runtime.NumCPU follows the affinity mask) with varying
// GOMAXPROCS, race build, with seeded delays injected at the hash.worker.send
// hook so that result arrival orders differ.

import (
	"bufio"
	"bytes"
	"encoding/json"
	"fmt"
	"os"
	"path/filepath"
	"runtime"
	"sort"
	"strings"
	"sync"
	"sync/atomic"
	"syscall"
	"time"

	"verif/harness/core"

	"github.com/FollowTheProcess/spok/hash"
	"github.com/FollowTheProcess/spok/verifhook"
)

func init() {
	register("C04", &Engine{Run: c04Run, Worker: hashWorker, Replay: c04Replay})
	register("C18", &Engine{Run: c18Run, Worker: hashWorker, Replay: c18Replay})
}

type cpuConfig struct {
	CPUs int
	GMP  int
}

func (k cpuConfig) String() string { return fmt.Sprintf("cpus%d-gmp%d", k.CPUs, k.GMP) }

func cpuConfigs(c *core.Ctx) []cpuConfig {
	if c.Thorough() {
		var out []cpuConfig
		for _, cpus := range []int{1, 2, 4, 16} {
			for _, g := range []int{1, 2, 4, 16} {
				out = append(out, cpuConfig{cpus, g})
			}
		}
		return out
	}
	return []cpuConfig{{1, 1}, {1, 4}, {2, 2}, {4, 1}, {4, 4}, {16, 2}, {16, 16}}
}

// tasksetLists gives every configuration its own CPUs where possible, so that the
// small-mask workers do not all sit on CPU 0.
func tasksetLists(cfgs []cpuConfig) []string {
	total := runtime.NumCPU()
	out := make([]string, len(cfgs))
	off := 0
	for i, k := range cfgs {
		n := k.CPUs
		if n >= total {
			out[i] = fmt.Sprintf("0-%d", total-1)
			continue
		}
		if off+n > total {
			off = 0
		}
		if n == 1 {
			out[i] = fmt.Sprint(off)
		} else {
			out[i] = fmt.Sprintf("%d-%d", off, off+n-1)
		}
		off += n
	}
	return out
}

// ---------------------------------------------------------------------------
// Contents and states (C04)

func content(name string) []byte {
	pat := func(n int) []byte {
		b := make([]byte, n)
		for i := range b {
			b[i] = byte('A' + i%23)
		}
		return b
	}
	switch name {
	case "empty":
		return nil
	case "x":
		return []byte("x")
	case "y":
		return []byte("y")
	case "xy":
		return []byte("xy")
	case "bx":
		return []byte("bx")
	case "lf":
		return []byte("line one\nline two\n")
	case "crlf":
		return []byte("line one\r\nline two\r\n")
	case "k4":
		return pat(4096)
	case "k4e":
		b := pat(4096)
		b[4095] ^= 1
		return b
	case "k64":
		return pat(65536)
	case "k64m":
		b := pat(65536)
		b[4096] ^= 1
		return b
	case "k64e":
		b := pat(65536)
		b[65535] ^= 1
		return b
	case "k70":
		return pat(70000)
	case "k70m":
		b := pat(70000)
		b[65536] ^= 1
		return b
	case "m1":
		return pat(1<<20 + 1)
	case "m1e":
		b := pat(1<<20 + 1)
		b[1<<20] ^= 1
		return b
	}
	if strings.HasPrefix(name, "bulk") {
		return []byte(name)
	}
	return []byte("content:" + name)
}

// "café" twice: composed (NFC) and decomposed (NFD) - two different names on this file system, like "a" and "A"
var c04Files = []string{"a", "ab", "b", "abc", "c", "d/a", "d/ab", "da", "e", "big70", "big1m", "caf\u00e9", "cafe\u0301", "A", "lnA", "lnB"}
var c04Dirs = []string{"d", "dd", "bulk"}

// c04States is the sequence of content assignments materialised at the same paths.
func c04States() []map[string]string {
	base := map[string]string{"a": "x", "ab": "y", "b": "y", "abc": "xy", "c": "k4", "d/a": "x", "d/ab": "k64", "da": "x", "e": "empty", "big70": "k70", "big1m": "m1", "caf\u00e9": "x", "cafe\u0301": "x", "A": "x",
		// two symbolic links to the same file: two paths with the content of their target
		"lnA": "@a", "lnB": "@a"}
	clone := func(m map[string]string, ch map[string]string) map[string]string {
		o := map[string]string{}
		for k, v := range m {
			o[k] = v
		}
		for k, v := range ch {
			o[k] = v
		}
		return o
	}
	return []map[string]string{
		base,
		clone(base, map[string]string{"c": "k4e", "d/ab": "k64m", "big70": "k70m", "big1m": "m1e"}),    // single-byte changes, also beyond 4 KiB / 64 KiB / 1 MiB
		clone(base, map[string]string{"a": "y", "b": "x", "da": "lf"}),                                 // a and b swapped; da = a text with LF line ends
		clone(base, map[string]string{"d/ab": "k64e", "e": "x", "a": "empty", "da": "crlf"}),           // last byte; empty <-> non-empty; da = the same text with CRLF line ends
		clone(base, map[string]string{"a": "bx", "ab": "x", "abc": "empty", "d/a": "bx", "d/ab": "x"}), // path/content boundary: "a"+"bx" vs "ab"+"x"
		base, // reverted: every digest must be the one of the first state again
	}
}

type hashState struct {
	ID       int               `json:"id"`
	Root     string            `json:"root"`
	Contents map[string]string `json:"contents"` // relative path -> content name
	Sums     map[string]string `json:"sums"`     // relative path -> sha256 of content
	NBulk    int               `json:"nbulk"`
}

func materialise(root string, st *hashState) {
	for _, d := range c04Dirs {
		_ = os.MkdirAll(filepath.Join(root, d), 0o755)
	}
	st.Sums = map[string]string{}
	for p, name := range st.Contents {
		full := filepath.Join(root, p)
		if strings.HasPrefix(name, "@") {
			// a symbolic link to another entry: it has the content of its target
			target := strings.TrimPrefix(name, "@")
			if cur, err := os.Readlink(full); err != nil || cur != target {
				_ = os.Remove(full)
				if err := os.Symlink(target, full); err != nil {
					core.Fatal("materialise: %v", err)
				}
			}
			st.Sums[p] = core.ShaHex(content(st.Contents[target]))
			continue
		}
		b := content(name)
		_ = os.MkdirAll(filepath.Dir(full), 0o755)
		if old, err := os.ReadFile(full); err != nil || !bytes.Equal(old, b) {
			if err := os.WriteFile(full, b, 0o644); err != nil {
				core.Fatal("materialise: %v", err)
			}
		}
		st.Sums[p] = core.ShaHex(b)
	}
	for i := 0; i < st.NBulk; i++ {
		p := fmt.Sprintf("bulk/f%05d", i)
		full := filepath.Join(root, p)
		if _, err := os.Stat(full); err != nil {
			_ = os.WriteFile(full, content(fmt.Sprintf("bulk%d", i)), 0o644)
		}
		st.Sums[p] = core.ShaHex(content(fmt.Sprintf("bulk%d", i)))
	}
}

// ---------------------------------------------------------------------------
// Instrumented call

type hashObs struct {
	Digest     string
	Err        error
	Starts     int64
	Exits      int64
	Arrival    []string
	GorBefore  int
	GorAfter   int
	LeakDump   string
	Returned   bool
	ElapsedMS  int64
	CollectErr int
}

var hookCounter atomic.Uint64

// callHash runs the real hasher with the observation hooks installed.
// inject is called at every hook point (from the goroutine that hit it).
// quiescePolls is how long (in half milliseconds) to wait for the goroutines of a call to be
// gone: C18 judges leaks and waits long, C04 only records them.
var quiescePolls = 20000

func callHash(list []string, delay bool, inject func(name string, args []string)) hashObs {
	var o hashObs
	var mu sync.Mutex
	var starts, exits atomic.Int64
	verifhook.SetHandler(func(name string, args []string) {
		switch name {
		case "hash.worker.start":
			starts.Add(1)
		case "hash.worker.exit":
			exits.Add(1)
		case "hash.collect":
			mu.Lock()
			if len(args) > 0 && len(o.Arrival) < 64 {
				o.Arrival = append(o.Arrival, args[0])
			}
			mu.Unlock()
		case "hash.worker.send":
			if delay {
				n := hookCounter.Add(1)
				z := n * 0x9e3779b97f4a7c15
				z ^= z >> 29
				if z&1 == 0 {
					time.Sleep(time.Duration(z%150) * time.Microsecond)
				} else {
					runtime.Gosched()
				}
			}
		}
		if inject != nil {
			inject(name, args)
		}
	})
	o.GorBefore = runtime.NumGoroutine()
	t0 := time.Now()
	o.Digest, o.Err = hash.New().Hash(list)
	o.Returned = true
	o.ElapsedMS = time.Since(t0).Milliseconds()
	// quiescence: the feeder, the closer and the workers are all on their way out
	// (polled for up to 10 s so that a loaded machine cannot turn slowness into a verdict: a goroutine
	// that is really left behind is blocked for good and is still there afterwards)
	for i := 0; i < quiescePolls; i++ {
		o.GorAfter = runtime.NumGoroutine()
		if o.GorAfter <= o.GorBefore && starts.Load() == exits.Load() {
			break
		}
		time.Sleep(500 * time.Microsecond)
	}
	verifhook.SetHandler(nil)
	o.Starts, o.Exits = starts.Load(), exits.Load()
	if o.GorAfter > o.GorBefore || o.Starts != o.Exits {
		buf := make([]byte, 1<<20)
		n := runtime.Stack(buf, true)
		o.LeakDump = string(buf[:n])
	}
	return o
}

// ---------------------------------------------------------------------------
// Worker (both properties)

type hashJob struct {
	State hashState `json:"state"`
	Out   string    `json:"out"` // where to write triples (C04)
}

func hashWorker(c *core.Ctx) {
	var job hashJob
	b, err := os.ReadFile(os.Getenv("VERIF_HASH_JOB"))
	if err != nil || json.Unmarshal(b, &job) != nil {
		core.Fatal("hash worker: no job: %v", err)
	}
	res := core.NewShardResult()
	wl := core.OpenWLog()
	res.Seen("numcpu_gomaxprocs", fmt.Sprintf("NumCPU=%d GOMAXPROCS=%d", runtime.NumCPU(), runtime.GOMAXPROCS(0)))
	// the descriptor limit of an ordinary login shell (1024), not the sandbox's 20000: lists of 1500 and
	// 3000 files must still hash (descriptors are to be released as the work proceeds)
	var rl syscall.Rlimit
	if syscall.Getrlimit(syscall.RLIMIT_NOFILE, &rl) == nil && rl.Cur > 1024 {
		rl.Cur = 1024
		if syscall.Setrlimit(syscall.RLIMIT_NOFILE, &rl) == nil {
			res.Seen("descriptor_limit", "1024")
		}
	}
	switch c.Sub {
	case "c04":
		c04Worker(c, job, res, wl)
	case "c18":
		c18Worker(c, job, res, wl)
	}
	core.WriteResult(res)
}

type c04list struct {
	Kind string   `json:"kind"`
	List []string `json:"list"` // relative paths
}

func c04Lists(c *core.Ctx, st hashState, r *core.Rng) []c04list {
	var out []c04list
	n := len(c04Files)
	// all subsets of size <= 3
	for mask := 0; mask < 1<<uint(n); mask++ {
		cnt := 0
		for m := mask; m != 0; m &= m - 1 {
			cnt++
		}
		if cnt > 3 {
			continue
		}
		var l []string
		for i := 0; i < n; i++ {
			if mask&(1<<uint(i)) != 0 {
				l = append(l, c04Files[i])
			}
		}
		out = append(out, c04list{"subset", l})
	}
	// larger sampled subsets
	for k := 0; k < c.Q(40, 300); k++ {
		sz := r.Range(4, n)
		idx := r.U64()
		var l []string
		perm := append([]string{}, c04Files...)
		core.Shuffle(core.NewRng(idx), perm)
		l = perm[:sz]
		out = append(out, c04list{"subset-large", l})
	}
	// duplicates
	for _, l := range [][]string{{"a", "a"}, {"a", "b", "a"}, {"a", "a", "b", "b"}, {"ab", "ab", "ab"}, {"big70", "big70"}, {"e", "e"}} {
		out = append(out, c04list{"duplicates", l})
	}
	// directories in the list
	for _, l := range [][]string{{"d"}, {"d", "a"}, {"a", "dd", "b"}, {"bulk"}, {"dd", "d", "bulk"}, {"d", "d/a", "d/ab"}, {"a", "d"}} {
		out = append(out, c04list{"with-directories", l})
	}
	// sizes around the worker-count boundaries
	sizes := []int{0, 1, 2, 3, 4, 5, 7, 8, 9, 15, 16, 17, 31, 32, 33, 63, 64, 65}
	if c.Thorough() {
		sizes = nil
		for i := 0; i <= 70; i++ {
			sizes = append(sizes, i)
		}
		sizes = append(sizes, 1000, 10000)
	}
	if !c.Thorough() && (st.ID == 0 || st.ID == len(c04States())-1) {
		sizes = append(sizes, 1500, 3000) // beyond any plausible batch size; only where the states are identical
	}
	for _, sz := range sizes {
		if sz > st.NBulk {
			continue
		}
		var l []string
		for i := 0; i < sz; i++ {
			l = append(l, fmt.Sprintf("bulk/f%05d", i))
		}
		out = append(out, c04list{fmt.Sprintf("size-%d", sz), l})
	}
	return out
}

func c04Keys(st hashState, list []string) (multiKey, setKey string, nfiles int) {
	var items []string
	for _, p := range list {
		if sum, ok := st.Sums[p]; ok {
			items = append(items, filepath.Join(st.Root, p)+"\x00"+sum)
		}
	}
	sort.Strings(items)
	multiKey = core.ShaHex([]byte(strings.Join(items, "\x01")))
	var set []string
	for i, it := range items {
		if i == 0 || it != items[i-1] {
			set = append(set, it)
		}
	}
	setKey = core.ShaHex([]byte(strings.Join(set, "\x01")))
	return multiKey, setKey, len(set)
}

func c04Worker(c *core.Ctx, job hashJob, res *core.ShardResult, wl *core.WLog) {
	quiescePolls = 100 // leaks are C18's business: do not wait for them here
	st := job.State
	r := c.Rng(core.StrKey("c04"), uint64(st.ID)) // the same lists for every CPU configuration
	lists := c04Lists(c, st, r)
	reps := c.Q(5, 50)
	out, err := os.Create(job.Out)
	if err != nil {
		core.Fatal("c04: %v", err)
	}
	w := bufio.NewWriter(out)
	defer func() { w.Flush(); out.Close() }()
	wl.Block(st.ID)
	pr := core.NewRng(c.Seed, uint64(st.ID), uint64(runtime.NumCPU()), uint64(runtime.GOMAXPROCS(0)))
	for li, l := range lists {
		nrep := reps
		if len(l.List) > 500 {
			nrep = 2
		}
		wl.Tick()
		if !wl.Begin(st.ID, li, func() any { return l }) {
			continue
		}
		for rep := 0; rep < nrep; rep++ {
			order := append([]string{}, l.List...)
			if rep > 0 {
				core.Shuffle(pr, order)
			}
			abs := make([]string, len(order))
			for i, p := range order {
				abs[i] = filepath.Join(st.Root, p)
			}
			o := callHash(abs, rep%2 == 1, nil)
			res.Evaluations++
			if o.Err != nil {
				res.Violate(core.Violation{Property: "C04", Clause: "hash-returns-digest", Key: l.Kind + fmt.Sprint(l.List),
					Detail: fmt.Sprintf("Hash failed on existing files: %v (list %v)", o.Err, order), Case: core.JSON(map[string]any{"state": st.Contents, "a": order})})
				continue
			}
			mk, sk, nf := c04Keys(st, order)
			lj, _ := json.Marshal(order)
			fmt.Fprintf(w, "%s\t%s\t%s\t%d\t%d\t%s\n", mk, sk, o.Digest, st.ID, nf, lj)
			if len(o.Arrival) > 1 {
				res.Seen("arrival_orders", fmt.Sprintf("%x", core.Hash64(o.Arrival...)))
			}
			if o.LeakDump != "" {
				res.Count("calls_not_quiescent_in_10s", 1)
			}
		}
		res.Count("lists", 1)
	}
	// lists of paths relative to the working directory (the function is public: a caller may pass them):
	// judged among themselves only, a relative and an absolute spelling of a path are different paths
	// (their digests are compared among themselves only - prefix "rel:" -: whether "a" and "/cwd/a" are
	// one path or two is not for this check to decide). The second working directory holds files of
	// the same names with other contents.
	type relCase struct {
		dir  string
		list []string
	}
	relCases := []relCase{{"", []string{"a", "b"}}, {"", []string{"a", "ab", "abc"}}, {"", []string{"d/a", "a"}}, {"", []string{"big70", "c", "e", "da"}},
		{"", []string{"b", "a", "d/ab", "big1m", "c"}}, {"", []string{"a", "ab"}}, {"d", []string{"a", "ab"}}, {"", []string{"ab", "a"}}}
	if cwd, err := os.Getwd(); err == nil {
		for li, rc := range relCases {
			l := rc.list
			if os.Chdir(filepath.Join(st.Root, rc.dir)) != nil {
				continue
			}
			for rep := 0; rep < reps; rep++ {
				order := append([]string{}, l...)
				if rep > 0 {
					core.Shuffle(pr, order)
				}
				o := callHash(order, rep%2 == 1, nil)
				res.Evaluations++
				if o.Err != nil {
					res.Violate(core.Violation{Property: "C04", Clause: "hash-returns-digest", Key: "relative" + fmt.Sprint(l),
						Detail: fmt.Sprintf("Hash failed on existing files given relative to the working directory <root>/%s: %v (list %v)", rc.dir, o.Err, order), Case: core.JSON(map[string]any{"state": st.Contents, "a": order})})
					continue
				}
				tmp := hashState{Root: "relative-to-cwd:", Sums: map[string]string{}}
				for _, p := range order {
					tmp.Sums[p] = st.Sums[filepath.Join(rc.dir, p)]
				}
				mk, sk, nf := c04Keys(tmp, order)
				lj, _ := json.Marshal(append([]string{"(relative to the working directory <root>/" + rc.dir + ")"}, order...))
				fmt.Fprintf(w, "%s\t%s\trel:%s\t%d\t%d\t%s\n", mk, sk, o.Digest, st.ID, nf, lj)
			}
			res.Count("relative_lists", 1)
			_ = li
		}
		_ = os.Chdir(cwd)
	}
	// a file whose content is another content followed by a slice of itself: what a read loop
	// that hashes a stale buffer tail cannot tell apart (buffer sizes 4 KiB .. 64 KiB)
	bigPriv := fmt.Sprintf("privbig.%d.%d", os.Getpid(), st.ID)
	bigFull := filepath.Join(st.Root, bigPriv)
	defer os.Remove(bigFull)
	base70 := content("k70")
	variants := [][]byte{base70}
	for _, bsz := range []int{4096, 8192, 16384, 32768, 65536} {
		// the last, partial read leaves bytes k..B of the previous full chunk in the buffer
		k, m := len(base70)%bsz, len(base70)/bsz
		variants = append(variants, append(append([]byte{}, base70...), base70[(m-1)*bsz+k:m*bsz]...))
		variants = append(variants, append(append([]byte{}, base70...), base70[k:bsz]...))
	}
	variants = append(variants, base70[:len(base70)-1], append(append([]byte{}, base70...), 0))
	for _, body := range variants {
		_ = os.WriteFile(bigFull, body, 0o644)
		o := callHash([]string{bigFull}, false, nil)
		res.Evaluations++
		if o.Err != nil {
			continue
		}
		tmp := hashState{Root: st.Root, Sums: map[string]string{bigPriv: core.ShaHex(body)}}
		mk, sk, nf := c04Keys(tmp, []string{bigPriv})
		lj, _ := json.Marshal([]string{fmt.Sprintf("%s (%d bytes, sha256 %s)", bigPriv, len(body), core.ShaHex(body)[:12])})
		fmt.Fprintf(w, "%s\t%s\t%s\t%d\t%d\t%s\n", mk, sk, o.Digest, st.ID, nf, lj)
		res.Count("self_tail_variants", 1)
	}
	// a file of three different 4 MiB blocks and its rearrangements: same length, same blocks, other order
	if st.ID == 0 {
		hugePriv := fmt.Sprintf("privhuge.%d", os.Getpid())
		hugeFull := filepath.Join(st.Root, hugePriv)
		blk := func(seed byte) []byte {
			b := make([]byte, 4<<20)
			x := uint32(seed) + 1
			for i := range b {
				x = x*1664525 + 1013904223
				b[i] = byte(x >> 24)
			}
			return b
		}
		b0, b1, b2 := blk(0), blk(1), blk(2)
		for _, order := range [][][]byte{{b0, b1, b2}, {b1, b0, b2}, {b0, b2, b1}, {b0, b1, b2}} {
			body := bytes.Join(order, nil)
			_ = os.WriteFile(hugeFull, body, 0o644)
			o := callHash([]string{hugeFull}, false, nil)
			res.Evaluations++
			if o.Err != nil {
				continue
			}
			tmp := hashState{Root: st.Root, Sums: map[string]string{hugePriv: core.ShaHex(body)}}
			mk, sk, nf := c04Keys(tmp, []string{hugePriv})
			lj, _ := json.Marshal([]string{fmt.Sprintf("%s (%d bytes, sha256 %s)", hugePriv, len(body), core.ShaHex(body)[:12])})
			fmt.Fprintf(w, "%s\t%s\t%s\t%d\t%d\t%s\n", mk, sk, o.Digest, st.ID, nf, lj)
			res.Count("rearranged_12MiB_files", 1)
		}
		_ = os.Remove(hugeFull)
	}
	// within one process: the content of a file changes while its size and modification time stay
	// the same (cp -p, rsync -t, a build step restoring timestamps)
	priv := fmt.Sprintf("priv.%d.%d", os.Getpid(), st.ID)
	full := filepath.Join(st.Root, priv)
	defer os.Remove(full)
	for step, body := range []string{"AAAA", "AAAB", "AAAA", "BAAA"} {
		var mt time.Time
		if fi, err := os.Stat(full); err == nil {
			mt = fi.ModTime()
		}
		_ = os.WriteFile(full, []byte(body), 0o644)
		if !mt.IsZero() {
			_ = os.Chtimes(full, mt, mt)
		}
		o := callHash([]string{full, filepath.Join(st.Root, "a")}, false, nil)
		res.Evaluations++
		if o.Err != nil {
			continue
		}
		sums := map[string]string{priv: core.ShaHex([]byte(body)), "a": st.Sums["a"]}
		tmp := hashState{Root: st.Root, Sums: sums}
		mk, sk, nf := c04Keys(tmp, []string{priv, "a"})
		lj, _ := json.Marshal([]string{priv + "=" + body, "a"})
		fmt.Fprintf(w, "%s\t%s\t%s\t%d\t%d\t%s\n", mk, sk, o.Digest, st.ID, nf, lj)
		res.Count("same_size_same_mtime_edits", int64(step&1))
		if step == 3 {
			// the same content with other permission bits: the same (path, content) pair
			_ = os.Chmod(full, 0o755)
			if o2 := callHash([]string{full, filepath.Join(st.Root, "a")}, false, nil); o2.Err == nil {
				res.Evaluations++
				fmt.Fprintf(w, "%s\t%s\t%s\t%d\t%d\t%s\n", mk, sk, o2.Digest, st.ID, nf, lj)
				res.Count("permission_changes", 1)
			}
		}
	}
}

// ---------------------------------------------------------------------------
// C04 orchestrator

type triple struct {
	Multi, Set, Digest string
	State              int
	NFiles             int
	List               string
	Config             string
}

func c04Run(c *core.Ctx) bool {
	root := filepath.Join(c.TempDir("c04-"), "tree")
	_ = os.MkdirAll(root, 0o755)
	nbulk := c.Q(3000, 10000)
	states := c04States()
	total := core.NewShardResult()
	byMulti := map[string]triple{}
	byDigest := map[string]triple{}
	var deaths []core.Death
	ntriples := 0
	for si, contents := range states {
		st := hashState{ID: si, Root: root, Contents: contents, NBulk: nbulk}
		materialise(root, &st)
		cfgs := cpuConfigs(c)
		masks := tasksetLists(cfgs)
		var mu sync.Mutex
		var wg sync.WaitGroup
		outs := make([]string, len(cfgs))
		for ci, cfg := range cfgs {
			wg.Add(1)
			go func(ci int, cfg cpuConfig) {
				defer wg.Done()
				dir := c.TempDir("c04job-")
				outs[ci] = filepath.Join(dir, "triples.tsv")
				jobPath := filepath.Join(dir, "job.json")
				_ = os.WriteFile(jobPath, core.JSON(hashJob{State: st, Out: outs[ci]}), 0o644)
				res, ds := c.RunWorkers(core.WorkerSpec{Sub: "c04", NShards: 1, Taskset: masks[ci],
					Env: []string{fmt.Sprintf("GOMAXPROCS=%d", cfg.GMP), "VERIF_HASH_JOB=" + jobPath}})
				mu.Lock()
				total.Merge(res)
				for i := range ds {
					ds[i].Kind += " [" + cfg.String() + "]"
				}
				deaths = append(deaths, ds...)
				mu.Unlock()
			}(ci, cfg)
		}
		wg.Wait()
		// fold the observations of this state into the global tables
		for ci, p := range outs {
			f, err := os.Open(p)
			if err != nil {
				continue
			}
			sc := bufio.NewScanner(f)
			sc.Buffer(make([]byte, 1<<20), 16<<20)
			for sc.Scan() {
				parts := strings.SplitN(sc.Text(), "\t", 6)
				if len(parts) != 6 {
					continue
				}
				t := triple{Multi: parts[0], Set: parts[1], Digest: parts[2], List: parts[5], Config: cfgs[ci].String()}
				fmt.Sscanf(parts[3], "%d", &t.State)
				fmt.Sscanf(parts[4], "%d", &t.NFiles)
				ntriples++
				if old, ok := byMulti[t.Multi]; ok {
					if old.Digest != t.Digest {
						c.Report(c04Violation("same-files-same-digest", states, old, t,
							"the same collection of (path, content) pairs was given two different digests"))
					}
				} else {
					byMulti[t.Multi] = t
					if t.NFiles >= 2 {
						total.Nontrivial++
					}
				}
				if old, ok := byDigest[t.Digest]; ok {
					if old.Set != t.Set {
						c.Report(c04Violation("different-files-different-digest", states, old, t,
							"two different sets of (path, content) pairs were given the same digest"))
					}
				} else {
					byDigest[t.Digest] = t
				}
			}
			f.Close()
		}
	}
	reportAll(c, total)
	ok := true
	for _, d := range deaths {
		if strings.HasPrefix(d.Kind, "race") {
			c.Report(deathViolation("C04", d, "no-race"))
		} else {
			ok = false
			fmt.Printf("INCONCLUSIVE: hash worker died (%s); crashes and hangs belong to C18. %s\n", d.Kind, core.Trunc(d.StderrTail, 1200))
		}
	}
	cov := map[string]any{
		"evaluations":             total.Evaluations,
		"distinct_nontrivial":     total.Nontrivial,
		"rule":                    "a universe of 11 files (names that are prefixes/concatenations of each other, nested, empty, 70 KB, 1 MiB+1) plus directories and bulk files is materialised in 6 successive content states at the same paths (a state in which path and content share a boundary - file a = 'bx' next to file ab = 'x' -, single-byte changes at the last byte / beyond 4 KiB, 64 KiB and 1 MiB, swapped contents, empty<->non-empty, revert); every worker also rewrites a private file in place with the same size and modification time, and a private 70 KB file with contents that are 'the original followed by a slice of itself' (stale-buffer family, buffer sizes 4-64 KiB), and hashes them again in the same process; lists of 1500 and 3000 files in the first and last state; in every state every sub-list of size <=3, sampled larger ones, lists with duplicates, with directories and of the sizes around the worker-count boundaries are hashed repeatedly in shuffled order by child processes for each (taskset CPUs, GOMAXPROCS) configuration, with seeded delays at hash.worker.send. One global table over all states and configurations: equal multiset of (abs path, content) => equal digest; equal digest => equal underlying set. evaluations = Hash calls; non-trivial = distinct multisets with >=2 files",
		"samples":                 []any{map[string]any{"state": states[1], "example_lists": [][]string{{"a", "ab"}, {"ab", "a"}, {"a", "a"}, {"d", "a"}, {"big1m", "c", "d/ab"}}}},
		"counters":                total.Counters,
		"observations":            ntriples,
		"distinct_multisets":      len(byMulti),
		"distinct_digests":        len(byDigest),
		"content_states":          len(states),
		"cpu_configurations":      total.SetValues("numcpu_gomaxprocs"),
		"distinct_arrival_orders": len(total.SetValues("arrival_orders")),
		"arrival_orders_cap":      5000,
		"worker_deaths":           len(deaths),
		"exhaustive":              false,
		"duplicates_policy":       "[a,a] vs [a]: neither equality nor difference of the digests is demanded",
	}
	c.WriteEvidence("exploration", cov, []string{
		"SHA-256 collisions and path strings crafted to contain raw digest bytes are outside the generated universe",
		"runtime.NumCPU is varied through the CPU affinity mask (taskset), GOMAXPROCS through the environment",
		"the race detector only sees the interleavings that occur; delays at hash.worker.send and the CPU configurations widen them",
	})
	if total.Evaluations < 5000 || len(byMulti) < 300 || len(total.SetValues("numcpu_gomaxprocs")) < 4 {
		fmt.Println("INCONCLUSIVE: coverage floor missed")
		return false
	}
	return ok
}

func c04Violation(clause string, states []map[string]string, a, b triple, what string) core.Violation {
	cs := map[string]any{"state_a": states[a.State], "state_b": states[b.State], "a": json.RawMessage(a.List), "b": json.RawMessage(b.List)}
	return core.Violation{Property: "C04", Clause: clause, Key: a.List + "|" + b.List + fmt.Sprintf("|%d|%d", a.State, b.State),
		Detail: fmt.Sprintf("%s: list %s in state %d (%s) => %s; list %s in state %d (%s) => %s", what, a.List, a.State, a.Config, a.Digest, b.List, b.State, b.Config, b.Digest),
		Case:   core.JSON(cs)}
}

func c04Replay(c *core.Ctx, v core.Violation) []core.Violation {
	var cs struct {
		StateA map[string]string `json:"state_a"`
		StateB map[string]string `json:"state_b"`
		State  map[string]string `json:"state"`
		A      []string          `json:"a"`
		B      []string          `json:"b"`
	}
	if err := json.Unmarshal(v.Case, &cs); err != nil {
		core.Fatal("replay: %v", err)
	}
	if cs.StateA == nil {
		cs.StateA, cs.StateB, cs.B = cs.State, cs.State, cs.A
	}
	root := filepath.Join(c.TempDir("c04r-"), "tree")
	run := func(contents map[string]string, list []string) (string, string, string, error) {
		st := hashState{Root: root, Contents: contents, NBulk: 80}
		materialise(root, &st)
		abs := make([]string, len(list))
		for i, p := range list {
			abs[i] = filepath.Join(root, p)
		}
		o := callHash(abs, true, nil)
		mk, sk, _ := c04Keys(st, list)
		return mk, sk, o.Digest, o.Err
	}
	var vs []core.Violation
	for i := 0; i < 20 && len(vs) == 0; i++ {
		ma, sa, da, ea := run(cs.StateA, cs.A)
		mb, sb, db, eb := run(cs.StateB, cs.B)
		switch {
		case ea != nil || eb != nil:
			vs = append(vs, core.Violation{Property: "C04", Clause: "hash-returns-digest", Key: v.Key, Detail: fmt.Sprintf("%v / %v", ea, eb), Case: v.Case})
		case ma == mb && da != db:
			vs = append(vs, core.Violation{Property: "C04", Clause: "same-files-same-digest", Key: v.Key, Detail: fmt.Sprintf("%s vs %s", da, db), Case: v.Case})
		case sa != sb && da == db:
			vs = append(vs, core.Violation{Property: "C04", Clause: "different-files-different-digest", Key: v.Key, Detail: fmt.Sprintf("both %s", da), Case: v.Case})
		}
	}
	return vs
}

// ---------------------------------------------------------------------------
// C18

type c18case struct {
	Size    int    `json:"size"`
	Pos     int    `json:"pos"`
	Hostile string `json:"hostile"`
}

func (k c18case) key() string { return fmt.Sprintf("%d/%d/%s", k.Size, k.Pos, k.Hostile) }

var c18Hostiles = []string{"none", "missing", "dangling-symlink", "directory", "symlink-to-directory", "duplicate",
	"vanishes-before-open", "truncated-after-open", "replaced-after-open", "unreadable-proc-mem", "two-missing", "missing-dir", "empty-path", "nul-in-path", "name-too-long", "file-as-directory"}

func c18Cases(c *core.Ctx) []c18case {
	var out []c18case
	for size := 0; size <= 6; size++ {
		for _, h := range c18Hostiles {
			if h == "none" || size == 0 {
				if h == "none" {
					out = append(out, c18case{size, 0, h})
				}
				continue
			}
			for pos := 0; pos < size; pos++ {
				out = append(out, c18case{size, pos, h})
			}
		}
	}
	sizes := []int{7, 8, 9, 15, 16, 17, 31, 32, 33, 48, 63, 64, 65}
	if c.Thorough() {
		sizes = append(sizes, 100, 1000, 10000)
	} else {
		sizes = append(sizes, 2000)
	}
	for _, sz := range sizes {
		for _, h := range []string{"none", "missing", "vanishes-before-open", "duplicate", "directory", "unreadable-proc-mem", "empty-path"} {
			pos := []int{0, sz / 2, sz - 1}
			if h == "none" {
				pos = []int{0}
			}
			for _, p := range pos {
				out = append(out, c18case{sz, p, h})
			}
		}
	}
	return out
}

// c18Build returns the list for a case, whether an error is demanded, and the
// injection to apply. The victim file is recreated before every call.
func c18Build(root string, k c18case) (list []string, wantErr, undecided bool, prep func(), inject func(string, []string)) {
	for i := 0; i < k.Size; i++ {
		list = append(list, filepath.Join(root, fmt.Sprintf("bulk/f%05d", i)))
	}
	victim := filepath.Join(root, fmt.Sprintf("victim.%d", os.Getpid()))
	usesVictim := strings.Contains(k.Hostile, "before-open") || strings.Contains(k.Hostile, "after-open")
	prep = func() {
		if usesVictim {
			_ = os.WriteFile(victim, bytes.Repeat([]byte("victim-content "), 5000), 0o644)
		}
	}
	set := func(p string) {
		if k.Size > 0 {
			list[k.Pos] = p
		}
	}
	switch k.Hostile {
	case "none":
	case "missing":
		set(filepath.Join(root, "no-such-file"))
		wantErr = true
	case "two-missing":
		set(filepath.Join(root, "no-such-file"))
		list[(k.Pos+1)%k.Size] = filepath.Join(root, "no-such-file-2")
		wantErr = true
	case "missing-dir":
		set(filepath.Join(root, "no-such-dir", "x"))
		wantErr = true
	case "dangling-symlink":
		set(filepath.Join(root, "dangling"))
		wantErr = true
	case "empty-path":
		set("")
		wantErr = true
	case "nul-in-path":
		set(filepath.Join(root, "a\x00b"))
		wantErr = true
	case "name-too-long":
		set(filepath.Join(root, strings.Repeat("n", 300)))
		wantErr = true
	case "file-as-directory":
		set(filepath.Join(root, "bulk/f00000") + "/")
		wantErr = true
	case "directory":
		set(filepath.Join(root, "dd"))
	case "symlink-to-directory":
		set(filepath.Join(root, "dirlink"))
	case "duplicate":
		if k.Size > 1 {
			list[k.Pos] = list[(k.Pos+1)%k.Size]
		}
	case "vanishes-before-open":
		set(victim)
		wantErr = true
		inject = func(name string, args []string) {
			if name == "hash.worker.open" && len(args) > 0 && args[0] == victim {
				_ = os.Remove(victim)
			}
		}
	case "truncated-after-open":
		set(victim)
		undecided = true // old, new or partial content, or an error: all legitimate
		inject = func(name string, args []string) {
			if name == "hash.worker.opened" && len(args) > 0 && args[0] == victim {
				_ = os.Truncate(victim, 10)
			}
		}
	case "replaced-after-open":
		set(victim)
		undecided = true
		inject = func(name string, args []string) {
			if name == "hash.worker.opened" && len(args) > 0 && args[0] == victim {
				_ = os.Remove(victim)
				_ = os.WriteFile(victim, []byte("new"), 0o644)
			}
		}
	case "unreadable-proc-mem":
		set("/proc/self/mem") // opens, every read fails with EIO
		wantErr = true
	}
	return
}

func c18Worker(c *core.Ctx, job hashJob, res *core.ShardResult, wl *core.WLog) {
	root := job.State.Root
	cases := c18Cases(c)
	reps := c.Q(12, 300)
	wl.Block(0)
	for ci, k := range cases {
		if ci%c.NShards != c.Shard {
			continue
		}
		if !wl.Always(0, ci, func() any { return k }) {
			continue
		}
		nrep := reps
		if k.Size > 6 {
			nrep = reps / 4
		}
		if k.Size > 500 {
			nrep = 2
		}
		for rep := 0; rep < nrep; rep++ {
			for _, v := range c18Judge(root, k, rep, res) {
				v.Case = core.JSON(k)
				res.Violate(v)
			}
			if res.Counters["violations_total"] >= 3 {
				break // a violating call can cost 10 s of quiescence polling: the verdict is settled
			}
		}
		if res.Counters["violations_total"] >= 3 {
			res.Count("stopped_early_after_violations", 1)
			break
		}
		res.Nontrivial++
	}
}

func c18Judge(root string, k c18case, rep int, res *core.ShardResult) (vs []core.Violation) {
	list, wantErr, undecided, prep, inject := c18Build(root, k)
	prep()
	o := callHash(list, rep%2 == 1, inject)
	res.Evaluations++
	bad := func(clause, format string, args ...any) {
		vs = append(vs, core.Violation{Property: "C18", Clause: clause, Key: k.key(), Detail: fmt.Sprintf(format, args...) + fmt.Sprintf(" [case %+v NumCPU=%d GOMAXPROCS=%d]", k, runtime.NumCPU(), runtime.GOMAXPROCS(0))})
	}
	switch {
	case undecided:
		res.Count("undecided_outcome_calls", 1)
	case wantErr && o.Err == nil:
		bad("unreadable-entry-is-an-error", "an entry cannot be opened or read but Hash returned the digest %s", o.Digest)
	case !wantErr && o.Err != nil:
		bad("readable-list-gives-digest", "every entry is readable but Hash returned %v", o.Err)
	case wantErr:
		res.Count("error_results", 1)
	default:
		res.Count("digest_results", 1)
	}
	if o.Err == nil && o.Digest == "" {
		bad("digest-or-error", "Hash returned neither a digest nor an error")
	}
	if o.Starts != o.Exits || o.GorAfter > o.GorBefore {
		leak := strings.Contains(o.LeakDump, "hash.worker") || strings.Contains(o.LeakDump, "hash.Concurrent.Hash")
		if leak {
			bad("no-goroutine-left-behind", "after Hash returned: %d workers started, %d exited, goroutines %d -> %d; dump:\n%s", o.Starts, o.Exits, o.GorBefore, o.GorAfter, core.Trunc(o.LeakDump, 3000))
		} else {
			res.Inconclusive++
		}
	}
	res.Count("workers_started", o.Starts)
	return
}

func c18Run(c *core.Ctx) bool {
	root := filepath.Join(c.TempDir("c18-"), "tree")
	_ = os.MkdirAll(root, 0o755)
	st := hashState{Root: root, Contents: map[string]string{"a": "x"}, NBulk: c.Q(2000, 10000)}
	materialise(root, &st)
	_ = os.Symlink(filepath.Join(root, "nowhere"), filepath.Join(root, "dangling"))
	_ = os.Symlink(filepath.Join(root, "dd"), filepath.Join(root, "dirlink"))
	total := core.NewShardResult()
	var deaths []core.Death
	var mu sync.Mutex
	var wg sync.WaitGroup
	sem := make(chan struct{}, 8)
	cfgs := cpuConfigs(c)
	masks := tasksetLists(cfgs)
	for ci, cfg := range cfgs {
		wg.Add(1)
		go func(ci int, cfg cpuConfig) {
			defer wg.Done()
			sem <- struct{}{}
			defer func() { <-sem }()
			// each configuration gets its own copy of the victim file: separate trees
			croot := filepath.Join(c.TempDir("c18cfg-"), "tree")
			_ = os.MkdirAll(croot, 0o755)
			cst := hashState{Root: croot, Contents: map[string]string{"a": "x"}, NBulk: st.NBulk}
			materialise(croot, &cst)
			_ = os.Symlink(filepath.Join(croot, "nowhere"), filepath.Join(croot, "dangling"))
			_ = os.Symlink(filepath.Join(croot, "dd"), filepath.Join(croot, "dirlink"))
			jobPath := filepath.Join(filepath.Dir(croot), "job.json")
			_ = os.WriteFile(jobPath, core.JSON(hashJob{State: hashState{Root: croot}}), 0o644)
			shards := 1
			if cfg.CPUs <= 4 {
				shards = 2 // small masks leave room for more processes
			}
			res, ds := c.RunWorkers(core.WorkerSpec{Sub: "c18", NShards: shards, Parallel: shards, AlwaysLogs: true, Taskset: masks[ci],
				Env: []string{fmt.Sprintf("GOMAXPROCS=%d", cfg.GMP), "VERIF_HASH_JOB=" + jobPath}, StallCPU: 30})
			mu.Lock()
			total.Merge(res)
			for i := range ds {
				ds[i].Kind += " [" + cfg.String() + "]"
			}
			deaths = append(deaths, ds...)
			mu.Unlock()
		}(ci, cfg)
	}
	wg.Wait()
	bin := c18Binary(c)
	total.Merge(bin)
	reportAll(c, total)
	ok := true
	for _, d := range deaths {
		kind := strings.Fields(d.Kind)[0]
		clause := map[string]string{"crash": "no-crash", "race": "no-race", "spin": "no-deadlock", "deadlock": "no-deadlock"}[kind]
		if clause == "" {
			ok = false
			fmt.Printf("INCONCLUSIVE: hash worker died (%s): %s\n", d.Kind, core.Trunc(d.StderrTail, 1200))
			continue
		}
		c.Report(deathViolation("C18", d, clause))
	}
	ncases := len(c18Cases(c))
	cov := map[string]any{
		"evaluations":         total.Evaluations,
		"distinct_nontrivial": int64(ncases),
		"rule":                "lists of size 0..6 with every position of every hostile entry kind " + fmt.Sprint(c18Hostiles) + ", and sizes around and beyond 4*NumCPU (up to 2000 / 10000) with a hostile entry at the start, middle and end; each shape is hashed repeatedly (seeded delays on odd repetitions) in child workers for every (taskset CPUs, GOMAXPROCS) configuration under the race detector; vanish/truncate/replace are injected through in-process hook callbacks between listing, open and read; plus the race-built binary with a missing literal dependency. evaluations = Hash calls; non-trivial = distinct (size, position, hostile kind) shapes, each exercised in every configuration",
		"samples":             []any{c18case{3, 1, "vanishes-before-open"}, c18case{6, 5, "dangling-symlink"}, c18case{64, 32, "unreadable-proc-mem"}},
		"counters":            total.Counters,
		"shapes":              ncases,
		"cpu_configurations":  total.SetValues("numcpu_gomaxprocs"),
		"worker_deaths":       len(deaths),
		"inconclusive_calls":  total.Inconclusive,
		"exhaustive":          false,
	}
	c.WriteEvidence("fault_enumeration", cov, []string{
		"goroutine conservation: hash.worker.start events = hash.worker.exit events and runtime.NumGoroutine back to its pre-call value within 10 s of quiescence polling; otherwise the goroutine dump decides (hash frames = leak, anything else = inconclusive)",
		"a crash, race report or stall of a child worker is attributed to the case announced last in its log",
		"read errors are produced with /proc/self/mem (opens, reads fail with EIO); file-descriptor counts are not judged",
	})
	if total.Evaluations < 2000 || total.Counters["error_results"] == 0 || total.Counters["binary_cases"] == 0 {
		fmt.Println("INCONCLUSIVE: coverage floor missed")
		return false
	}
	return ok
}

// c18Binary: spok with a missing / dangling / vanished literal dependency must stop
// with a message, not die.
func c18Binary(c *core.Ctx) *core.ShardResult {
	res := core.NewShardResult()
	kinds := []string{"missing", "dangling", "directory", "ok", "missing-among-many", "missing-force"}
	n := c.Q(24, 120)
	out := make([]*core.ShardResult, n)
	core.ParallelFor(n, c.NCPU, func(i int) {
		out[i] = core.NewShardResult()
		kind := kinds[i%len(kinds)]
		for _, v := range c18BinaryCase(c, kind, i, out[i]) {
			v.Engine = "binary"
			v.Case = core.JSON(map[string]any{"kind": kind, "i": i})
			out[i].Violate(v)
		}
	})
	for _, o := range out {
		res.Merge(o)
	}
	return res
}

func c18BinaryCase(c *core.Ctx, kind string, i int, res *core.ShardResult) (vs []core.Violation) {
	dir := c.TempDir("c18b-")
	defer os.RemoveAll(dir)
	home := filepath.Join(dir, "home")
	proj := filepath.Join(home, "proj")
	_ = os.MkdirAll(proj, 0o755)
	deps := []string{`"dep.txt"`}
	wantFail := true
	args := []string{"t"}
	switch kind {
	case "missing", "missing-force":
		if kind == "missing-force" {
			args = []string{"--force", "t"}
		}
	case "dangling":
		_ = os.Symlink(filepath.Join(proj, "nowhere"), filepath.Join(proj, "dep.txt"))
	case "directory":
		_ = os.MkdirAll(filepath.Join(proj, "dep.txt"), 0o755)
		wantFail = false
	case "ok":
		_ = os.WriteFile(filepath.Join(proj, "dep.txt"), []byte("x"), 0o644)
		wantFail = false
	case "missing-among-many":
		deps = nil
		for k := 0; k < 40; k++ {
			name := fmt.Sprintf("f%02d.txt", k)
			deps = append(deps, `"`+name+`"`)
			if k != (i*7)%40 {
				_ = os.WriteFile(filepath.Join(proj, name), []byte(name), 0o644)
			}
		}
	}
	text := fmt.Sprintf("task t(%s) {\n    true\n}\n", strings.Join(deps, ", "))
	_ = os.WriteFile(filepath.Join(proj, "spokfile"), []byte(text), 0o644)
	inv := core.RunSpok(core.SpokOpts{Bin: c.SpokRace(), Dir: proj, Home: home, Args: args})
	res.Evaluations++
	res.Count("binary_cases", 1)
	bad := func(clause, format string, a ...any) {
		vs = append(vs, core.Violation{Property: "C18", Clause: clause, Key: "binary:" + kind,
			Detail: fmt.Sprintf(format, a...) + fmt.Sprintf(" [kind %s exit %d stderr %s]", kind, inv.Exit, core.Trunc(inv.Stderr, 600)), Events: map[string]any{"invocation": inv}})
	}
	switch {
	case inv.TimedOut:
		bad("no-deadlock", "spok did not finish")
	case inv.Crashed():
		bad("no-crash", "spok died instead of reporting an error")
	case inv.Race:
		bad("no-race", "race report")
	case inv.TimedOut:
		bad("no-deadlock", "spok did not finish")
	case wantFail && inv.Exit == 0:
		bad("unreadable-entry-is-an-error", "a dependency cannot be read but spok exited 0")
	case wantFail && strings.TrimSpace(inv.Stderr) == "":
		bad("unreadable-entry-is-an-error", "spok failed without a message")
	case !wantFail && inv.Exit != 0:
		bad("readable-list-gives-digest", "spok failed although every dependency is readable")
	}
	return
}

func c18Replay(c *core.Ctx, v core.Violation) []core.Violation {
	res := core.NewShardResult()
	if v.Engine == "binary" {
		var cs struct {
			Kind string `json:"kind"`
			I    int    `json:"i"`
		}
		_ = json.Unmarshal(v.Case, &cs)
		vs := c18BinaryCase(c, cs.Kind, cs.I, res)
		for i := range vs {
			vs[i].Case, vs[i].Engine = v.Case, v.Engine
		}
		return vs
	}
	var k c18case
	if err := json.Unmarshal(v.Case, &k); err != nil || v.Case == nil {
		core.Fatal("replay: the recorded violation has no located case")
	}
	root := filepath.Join(c.TempDir("c18r-"), "tree")
	st := hashState{Root: root, Contents: map[string]string{"a": "x"}, NBulk: 10000}
	if k.Size < 2000 {
		st.NBulk = 2000
	}
	materialise(root, &st)
	_ = os.Symlink(filepath.Join(root, "nowhere"), filepath.Join(root, "dangling"))
	_ = os.Symlink(filepath.Join(root, "dd"), filepath.Join(root, "dirlink"))
	var vs []core.Violation
	for rep := 0; rep < 200 && len(vs) == 0; rep++ {
		vs = c18Judge(root, k, rep, res)
	}
	for i := range vs {
		vs[i].Case = v.Case
	}
	return vs
}
