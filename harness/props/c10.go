package props

// C10: killing spok at any point never leads to a wrongly skipped task later.
//
// Fault enumeration: for reachable project states S and runs R, the run is
// recorded once (ordered list of hook points hit), then repeated with SIGKILL at
// every point index, with `kill -9 $$` inside every command position, and with every
// (tier-dependent) byte-prefix of every cache file the run writes installed as the
// cache. Every damaged state is followed by continuations of edits/reverts and
// unforced runs judged by the monitor of hist.go (C01 clause; C02 is not demanded
// after a crash).

import (
	"encoding/json"
	"fmt"
	"os"
	"path/filepath"
	"strconv"
	"strings"

	"verif/harness/core"
)

func init() {
	register("C10", &Engine{Run: c10Run, Worker: c10Worker, Replay: c10Replay})
}

// c10case is a replayable fault scenario.
type c10case struct {
	Shape  hshape `json:"shape"`
	Prefix []hop  `json:"prefix"` // crash-free history that produces the pre-state
	Run    hop    `json:"run"`    // the run that is killed
	Fault  string `json:"fault"`  // "point:<i>" | "kill:<T.i>" | "term:<T.i>" | "int:<T.i>" | "torn:<dump index>:<prefix length>"
	Cont   []hop  `json:"cont"`   // continuation
}

func (k c10case) key() string {
	h := hcase{Shape: k.Shape, Ops: k.Prefix}
	var cont []string
	for _, o := range k.Cont {
		cont = append(cont, o.String())
	}
	return fmt.Sprintf("%s || %s killed at %s || %s", h.key(), k.Run, k.Fault, strings.Join(cont, "; "))
}

func c10Shapes(c *core.Ctx) []hshape {
	if c.Thorough() {
		return histShapes
	}
	// two literals, glob, shared file, generated input, chain of three
	return []hshape{histShapes[0], histShapes[2], histShapes[3], histShapes[len(histShapes)-2], histShapes[len(histShapes)-1]}
}

func c10StatesPerShape(c *core.Ctx) int { return c.Q(12, 60) }

// prestate is a reachable state with the crash-free history leading to it.
type prestate struct {
	st   hstate
	path []hop
}

// c10Prestates explores crash-free histories breadth first (in-process) to the
// given depth and returns the distinct states found.
func c10Prestates(sb *sandbox, shape hshape, depth int) []prestate {
	values := []string{"v1", "v2"}
	var ops []hop
	for _, o := range editOps(shape, values) {
		if o.Kind != "rmcache" {
			ops = append(ops, o)
		}
	}
	ops = append(ops, runOps(shape, false)...)
	all := []prestate{{st: newState()}}
	seen := map[string]bool{all[0].st.key(): true}
	frontier := []int{0}
	for d := 0; d < depth; d++ {
		var next []int
		for _, idx := range frontier {
			cur := all[idx]
			for _, op := range ops {
				n := cur.st.clone()
				if op.Kind == "run" {
					sb.materialise(shape, cur.st)
					o := sb.runInproc(shape, op)
					sb.readBack(shape, &n)
					judgeRun(shape, cur.st, o, &n, c02All)
				} else {
					applyEdit(&n, op)
				}
				if k := n.key(); !seen[k] {
					seen[k] = true
					all = append(all, prestate{st: n, path: append(append([]hop{}, cur.path...), op)})
					next = append(next, len(all)-1)
				}
			}
		}
		frontier = next
	}
	return all
}

// selectPrestates picks n states deterministically. States are grouped by what a kill
// could make matter: per task, whether the cache holds nothing / the digest of the current
// inputs / the digest of other inputs, and whether its current input set is empty; one
// representative (the one with the shortest history) is taken per class, classes in a
// seeded order, classes with recorded digests first.
func selectPrestates(shape hshape, all []prestate, n int, r *core.Rng) []prestate {
	classOf := func(p prestate) (string, bool) {
		var parts []string
		recorded := false
		for _, t := range shape.Tasks {
			files := map[string]string{spokfileVersionKey: spokVer(shape)}
			for k, v := range p.st.Files {
				files[k] = v
			}
			snap := snapshot(&t, files)
			last := p.st.Model[t.Name]
			c := "none"
			switch {
			case last != "" && last == snap:
				c = "current"
				recorded = true
			case last != "":
				c = "other"
				recorded = true
			}
			if snap == noFiles {
				c += "/no-input"
			}
			if missingLiteral(&t, p.st.Files) {
				c += "/missing-literal"
			}
			parts = append(parts, t.Name+"="+c)
		}
		if p.st.Cache == nil {
			parts = append(parts, "no-cache")
		}
		return strings.Join(parts, " "), recorded
	}
	var with, without []prestate
	seen := map[string]bool{}
	for _, p := range all { // breadth-first order: the first of a class has the shortest history
		k, rec := classOf(p)
		if seen[k] {
			continue
		}
		seen[k] = true
		if rec {
			with = append(with, p)
		} else {
			without = append(without, p)
		}
	}
	core.Shuffle(r, with)
	core.Shuffle(r, without)
	out := append(with, without...)
	if len(out) > n {
		// keep mostly states with recorded digests, but always a few without
		k := n - n/4
		if k > len(with) {
			k = len(with)
		}
		rest := n - k
		if rest > len(without) {
			rest = len(without)
		}
		out = append(append([]prestate{}, with[:k]...), without[:rest]...)
	}
	return out
}

func c10Worker(c *core.Ctx) {
	res := core.NewShardResult()
	wl := core.OpenWLog()
	shapes := c10Shapes(c)
	per := c10StatesPerShape(c)
	shape := shapes[c.Shard/per%len(shapes)]
	sb := newSandbox(c.TempDir("c10-"))
	defer os.RemoveAll(sb.Root)
	all := c10Prestates(sb, shape, c.Q(3, 4))
	picks := selectPrestates(shape, all, per, c.Rng(core.StrKey("c10-select"), core.StrKey(shape.Name)))
	res.Count("prestate_classes_"+shape.Name, 0)
	wl.Block(c.Shard)
	if c.Shard%per < len(picks) {
		c10Explore(c, sb, shape, picks[c.Shard%per], res, wl)
	}
	res.Count("reachable_states_considered", int64(len(all)))
	core.WriteResult(res)
}

type tracePoint struct {
	Name string
	Args []string
}

func readTrace(path string) []tracePoint {
	b, _ := os.ReadFile(path)
	var out []tracePoint
	for _, line := range strings.Split(string(b), "\n") {
		f := strings.Split(line, "\t")
		if len(f) < 2 {
			continue
		}
		out = append(out, tracePoint{Name: f[1], Args: f[2:]})
	}
	return out
}

// c10Explore enumerates the faults of every chosen run from one pre-state.
func c10Explore(c *core.Ctx, sb *sandbox, shape hshape, ps prestate, res *core.ShardResult, wl *core.WLog) {
	var all []string
	for _, t := range shape.Tasks {
		all = append(all, t.Name)
	}
	runs := []hop{{Kind: "run", Tasks: all}, {Kind: "run", Tasks: all, Force: true}}
	if c.Thorough() {
		runs = append(runs, hop{Kind: "run", Tasks: []string{shape.Tasks[len(shape.Tasks)-1].Name}})
	}
	caseNo := 0
	for _, run := range runs {
		// 1. record pass
		tracePath := filepath.Join(sb.Root, "trace")
		_ = os.Remove(tracePath)
		sb.materialise(shape, ps.st)
		rec := sb.runBinary(c.SpokPlain(), shape, run, []string{"VERIF_TRACE=" + tracePath})
		points := readTrace(tracePath)
		res.Count("record_passes", 1)
		if rec.Killed || len(points) == 0 {
			res.Inconclusive++
			continue
		}
		var faults []string
		for i := 1; i <= len(points); i++ {
			faults = append(faults, "point:"+strconv.Itoa(i))
		}
		for _, name := range shape.closure(run.Tasks) {
			t := shape.task(name)
			for j := 0; j < t.NCmd; j++ {
				faults = append(faults, fmt.Sprintf("kill:%s.%d", name, j))
				// the signals a user or a supervisor sends: the run ends just the same, and whatever a
				// handler does on the way out must not put an older record back
				faults = append(faults, fmt.Sprintf("term:%s.%d", name, j), fmt.Sprintf("int:%s.%d", name, j))
			}
		}
		dump := 0
		for _, p := range points {
			if p.Name != "cache.dump.pre" || len(p.Args) < 2 {
				continue
			}
			dump++
			n := len(p.Args[1])
			for l := 0; l < n; l++ {
				if c.Thorough() || l == 0 || l == 1 || l == n-1 || l%8 == 0 {
					faults = append(faults, fmt.Sprintf("torn:%d:%d", dump, l))
				}
			}
		}
		for _, f := range faults {
			k := c10case{Shape: shape, Prefix: ps.path, Run: run, Fault: f}
			if !wl.Always(c.Shard, caseNo, func() any { return k }) {
				caseNo++
				continue
			}
			caseNo++
			c10Fault(c, sb, k, ps.st, points, res, caseNo)
		}
	}
}

// applyFault materialises the pre-state, runs the run with the fault and returns
// the damaged state (model updated from the side-effect log) or ok=false when the
// fault did not take effect.
func c10ApplyFault(c *core.Ctx, sb *sandbox, k c10case, pre hstate, points []tracePoint, bin string) (post hstate, obs hobs, ok bool) {
	sb.materialise(k.Shape, pre)
	var env []string
	kind, arg, _ := strings.Cut(k.Fault, ":")
	tornLen := -1
	tornContent := ""
	switch kind {
	case "point":
		env = []string{"VERIF_FAULTS=crash@*#" + arg}
	case "kill", "term", "int":
		// the flag file holds the number of the signal the command sends to spok (the shell is in-process)
		_ = os.WriteFile(filepath.Join(sb.Flags, "kill."+flagOf(arg)), []byte(map[string]string{"kill": "9", "term": "15", "int": "2"}[kind]), 0o644)
		defer os.Remove(filepath.Join(sb.Flags, "kill."+flagOf(arg)))
	case "torn":
		idx, l, _ := strings.Cut(arg, ":")
		env = []string{"VERIF_FAULTS=crash@cache.dump.pre#" + idx}
		tornLen, _ = strconv.Atoi(l)
		want, _ := strconv.Atoi(idx)
		n := 0
		for _, p := range points {
			if p.Name == "cache.dump.pre" && len(p.Args) >= 2 {
				n++
				if n == want {
					tornContent = p.Args[1]
				}
			}
		}
	}
	obs = sb.runBinary(bin, k.Shape, k.Run, env)
	post = pre.clone()
	sb.readBack(k.Shape, &post)
	if !obs.Killed && (kind == "term" || kind == "int") && (obs.Exit == 143 || obs.Exit == 130) {
		// the signal was caught and turned into the conventional exit status: the run ended there all the same
		obs.Killed = true
	}
	if !obs.Killed {
		return post, obs, false
	}
	if kind == "torn" {
		// the kill came right before the write: install what a write interrupted after
		// tornLen bytes leaves behind (truncate, then a prefix of the new content)
		if tornLen > len(tornContent) {
			tornLen = len(tornContent)
		}
		cachePath := filepath.Join(sb.Proj, ".spok", "cache.json")
		_ = os.MkdirAll(filepath.Dir(cachePath), 0o755)
		_ = os.WriteFile(cachePath, []byte(tornContent[:tornLen]), 0o666)
		sb.readBack(k.Shape, &post)
	}
	judgeRun(k.Shape, pre, obs, &post, c02None) // model update only: nothing is demanded of the killed run itself
	return post, obs, true
}

func c10Continuations(shape hshape, st hstate) [][]hop {
	var all []string
	for _, t := range shape.Tasks {
		all = append(all, t.Name)
	}
	run := hop{Kind: "run", Tasks: all}
	conts := [][]hop{{run}, {run, run}}
	var fails []string
	for _, t := range shape.Tasks {
		fails = append(fails, t.Name+".0")
	}
	failing := hop{Kind: "run", Tasks: all, Fail: strings.Join(fails, ",")}
	for _, f := range shape.Files {
		cur, exists := st.Files[f]
		other := "v1"
		if cur == "v1" {
			other = "v2"
		}
		edit := hop{Kind: "write", File: f, Value: other}
		conts = append(conts, []hop{edit, run})
		if exists {
			revert := hop{Kind: "write", File: f, Value: cur}
			conts = append(conts, []hop{edit, run, revert, run})
			conts = append(conts, []hop{edit, revert, run})
		}
		// a failing run on a third content in between, then back to either known content
		third := hop{Kind: "write", File: f, Value: "v3"}
		conts = append(conts, []hop{third, failing, edit, run})
		if exists {
			conts = append(conts, []hop{third, failing, hop{Kind: "write", File: f, Value: cur}, run})
		}
	}
	return conts
}

func c10Fault(c *core.Ctx, sb *sandbox, k c10case, pre hstate, points []tracePoint, res *core.ShardResult, caseNo int) {
	bin := c.SpokPlain()
	if caseNo%10 == 0 {
		bin = c.SpokRace()
	}
	post, obs, ok := c10ApplyFault(c, sb, k, pre, points, bin)
	kind, _, _ := strings.Cut(k.Fault, ":")
	res.Evaluations++
	res.Count("faults_"+kind+"_injected", 1)
	if strings.HasPrefix(obs.Err, "CRASH:") && !obs.Killed {
		v := core.Violation{Property: "C10", Clause: "binary-no-crash", Key: k.key(), Detail: core.Trunc(obs.Err, 800), Case: core.JSON(k)}
		res.Violate(v)
		return
	}
	if !ok {
		res.Count("faults_"+kind+"_not_reached", 1)
		return
	}
	res.Count("faults_"+kind+"_reached", 1)
	if kind == "point" {
		i, _ := strconv.Atoi(strings.TrimPrefix(k.Fault, "point:"))
		if i >= 1 && i <= len(points) {
			res.Seen("crash_points", points[i-1].Name)
		}
	}
	res.Seen("post_crash_disk_states", fmt.Sprintf("%x", core.Hash64(k.Shape.Name, post.diskKey())))
	for ci, cont := range c10Continuations(k.Shape, post) {
		kc := k
		kc.Cont = cont
		via := "inproc"
		if (caseNo+ci)%12 == 0 {
			via = "binary"
		}
		vs, skips := c10RunCont(c, sb, kc, post, via)
		res.Count("continuations", 1)
		res.Count("continuation_skips_observed", int64(skips))
		res.Distinct(core.Hash64(kc.key()))
		for _, v := range vs {
			v.Key = kc.key()
			v.Case = core.JSON(kc)
			res.Violate(v)
		}
		if len(vs) > 0 {
			break
		}
	}
	if caseNo%97 == 1 {
		res.Sample(map[string]any{"scenario": k.key(), "log_of_killed_run": obs.Log}, 3)
	}
}

// c10RunCont executes a continuation from a damaged state and judges it.
func c10RunCont(c *core.Ctx, sb *sandbox, k c10case, post hstate, via string) (vs []core.Violation, skips int) {
	st := post.clone()
	for i, op := range k.Cont {
		if op.Kind != "run" {
			applyEdit(&st, op)
			continue
		}
		sb.materialise(k.Shape, st)
		var o hobs
		if via == "binary" {
			o = sb.runBinary(c.SpokRace(), k.Shape, op, nil)
		} else {
			o = sb.runInproc(k.Shape, op)
		}
		before := st.clone()
		sb.readBack(k.Shape, &st)
		if strings.HasPrefix(o.Err, "CRASH:") {
			vs = append(vs, core.Violation{Property: "C10", Clause: "binary-no-crash", Detail: fmt.Sprintf("continuation step %d (%s): %s", i, op, core.Trunc(o.Err, 600))})
			return
		}
		if o.Err != "" && !o.HaveRep {
			// spok stopped with an error: it must be an explicit error about the cache
			// (or about a missing dependency file) and nothing may have run before it that was skipped wrongly
			lower := strings.ToLower(o.Err)
			explicit := strings.Contains(lower, "cache") || strings.Contains(lower, "could not get hash result") || strings.Contains(lower, "no such file") ||
				strings.Contains(lower, "exited with status") // a command that failed (told to, or e.g. cp of a missing source)
			if !explicit {
				vs = append(vs, core.Violation{Property: "C10", Clause: "explicit-cache-error", Detail: fmt.Sprintf("continuation step %d (%s) failed with an error that does not mention the cache: %s", i, op, core.Trunc(o.Err, 300))})
				return
			}
			if strings.Contains(lower, "cache") && len(o.Log) != 0 {
				vs = append(vs, core.Violation{Property: "C10", Clause: "cache-error-runs-nothing", Detail: fmt.Sprintf("continuation step %d (%s) reported a cache error but commands ran: %v", i, op, o.Log)})
				return
			}
		}
		vd := judgeRun(k.Shape, before, o, &st, c02None)
		skips += vd.Skips
		for _, v := range vd.Violations {
			if v.Property != "C01" {
				continue
			}
			v.Property = "C10"
			v.Detail = fmt.Sprintf("after the kill, continuation step %d (%s, %s): %s", i, op, via, v.Detail)
			v.Events = map[string]any{"observation": o, "files": before.Files, "cache_before": before.Cache, "model_last_success": before.Model}
			vs = append(vs, v)
		}
		if len(vs) > 0 {
			return
		}
	}
	return
}

func c10Run(c *core.Ctx) bool {
	n := len(c10Shapes(c)) * c10StatesPerShape(c)
	res, deaths := c.RunWorkers(core.WorkerSpec{Sub: "crash", NShards: n, AlwaysLogs: true, StallCPU: 60})
	perClause := map[string]int{}
	for _, v := range res.Violations {
		perClause[v.Clause]++
		if perClause[v.Clause] <= 5 {
			c.Report(v)
		}
	}
	for _, d := range deaths {
		fmt.Printf("INCONCLUSIVE: worker died (%s): %s\n", d.Kind, core.Trunc(d.StderrTail, 1500))
	}
	distinct := res.DistinctCount()
	cov := map[string]any{
		"evaluations":                     res.Evaluations + res.Counters["continuations"],
		"faults_injected":                 res.Evaluations,
		"distinct_nontrivial":             distinct,
		"rule":                            "for reachable crash-free project states (breadth-first to depth 3/4 on 5/12 shapes, a seeded selection preferring states with recorded digests) and the runs {all tasks, all tasks --force(, last task)}: one recorded pass lists the hook points hit (run.*, cache.*, hash.*); the run is then repeated by the real binary with SIGKILL at every point index, with `kill -9 $$` (and -15, -2) in every command position, and with byte-prefixes of every cache content it writes installed as cache.json (quick: lengths 0, 1, every 8th, len-1; thorough: all); each damaged state is followed by continuations {run; run run; edit run; edit run revert run; edit revert run; third-content failing-run edit/revert run} per file, judged by the cache model (C01 clause). evaluations = faults injected + continuations executed; non-trivial = distinct (scenario, continuation) pairs executed after a fault that took effect",
		"samples":                         res.Samples,
		"counters":                        res.Counters,
		"crash_points_reached":            res.SetValues("crash_points"),
		"distinct_post_crash_disk_states": len(res.SetValues("post_crash_disk_states")),
		"worker_deaths":                   len(deaths),
		"inconclusive":                    res.Inconclusive,
		"exhaustive":                      false,
	}
	c.WriteEvidence("fault_enumeration", cov, []string{
		"a torn cache write is modelled as truncate-then-write interrupted at a byte: some byte-prefix of the new content; reordering of persisted blocks after power loss cannot be produced from user space",
		"a crash is SIGKILL delivered from inside the process at a hook point, or by a task command killing its parent shell (the shell is in-process)",
		"a task counts as completed in a killed run iff every one of its commands wrote its ok marker to the side-effect log",
		"C02 (demanded skips) is not required after a crash; an explicit error about the cache with no command executed is an accepted outcome",
	})
	if res.Counters["faults_point_reached"] < 100 || res.Counters["faults_torn_reached"] < 20 || res.Counters["faults_kill_reached"] < 10 || res.Counters["continuation_skips_observed"] == 0 {
		fmt.Printf("INCONCLUSIVE: coverage floor missed: %v\n", res.Counters)
		return false
	}
	return len(deaths) == 0
}

func c10Replay(c *core.Ctx, v core.Violation) []core.Violation {
	var k c10case
	if err := json.Unmarshal(v.Case, &k); err != nil {
		core.Fatal("replay: %v", err)
	}
	sb := newSandbox(c.TempDir("c10r-"))
	defer os.RemoveAll(sb.Root)
	// rebuild the pre-state by replaying the crash-free prefix in-process
	st := newState()
	for _, op := range k.Prefix {
		if op.Kind != "run" {
			applyEdit(&st, op)
			continue
		}
		sb.materialise(k.Shape, st)
		o := sb.runInproc(k.Shape, op)
		pre := st.clone()
		sb.readBack(k.Shape, &st)
		judgeRun(k.Shape, pre, o, &st, c02All)
	}
	tracePath := filepath.Join(sb.Root, "trace")
	sb.materialise(k.Shape, st)
	sb.runBinary(c.SpokPlain(), k.Shape, k.Run, []string{"VERIF_TRACE=" + tracePath})
	points := readTrace(tracePath)
	post, _, ok := c10ApplyFault(c, sb, k, st, points, c.SpokPlain())
	if !ok {
		fmt.Println("REPLAY: the fault did not take effect on this tree")
		return nil
	}
	vs, _ := c10RunCont(c, sb, k, post, "inproc")
	for i := range vs {
		vs[i].Case = v.Case
		vs[i].Key = v.Key
	}
	return vs
}
