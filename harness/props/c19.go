package props

// C19: spok writes only where the chosen action says it may.

import (
	"encoding/json"
	"fmt"
	"os"
	"path/filepath"
	"strings"

	"verif/harness/core"
	"verif/harness/gen"

	"github.com/FollowTheProcess/spok/file"
	"github.com/FollowTheProcess/spok/parser"
)

func init() {
	register("C19", &Engine{Run: c19Run, Replay: c19Replay})
}

type c19case struct {
	Spokfile   string   `json:"spokfile"`                  // text; "" with NoSpokfile
	Variant    string   `json:"variant"`                   // valid | token-removed | duplicate-task | failing-exec | unknown-builtin | none | directory
	Files      []string `json:"files"`                     // other project files
	Args       []string `json:"args"`                      // command line
	Nested     bool     `json:"nested"`                    // cwd = proj/nested/dir
	GitIgnore  bool     `json:"gitignore"`                 // a .gitignore exists in cwd
	InitHere   string   `json:"init_here"`                 // for --init from a nested dir: "" | "file" | "dir" (a spokfile already exists in cwd)
	SpokIsFile bool     `json:"dot_spok_is_a_file"`        // a regular file named .spok sits where the cache directory would go
	Linked     bool     `json:"linked_spokfile,omitempty"` // the project's spokfile is a symbolic link to ../common/spokfile
	StalePWD   bool     `json:"stale_pwd,omitempty"`       // $PWD names another existing project directory (a stale value inherited from a caller)
	Env        int      `json:"ambient_env,omitempty"`     // core.HostileEnv variant
}

func (k c19case) key() string { b, _ := json.Marshal(k); return string(b) }

const c19Demo = `# This is a spokfile example

VERSION := "0.3.0"

# Run the unit tests
task test("**/*.go") {
    go test ./...
}

# Which version am I
task version() {
    echo {{.VERSION}}
}
`

const c19GitIgnore = `
# Ignore the spok cache directory
.spok/
`

var c19FilePool = []string{"a.txt", "src/main.go", "src/util.go", ".env", "README.md", "docs/guide.md", ".hidden/x", "out/bin", "nested/dir/keep"}

// c19Prog builds a side-effect free program: running any of its tasks changes nothing.
func c19Prog(r *core.Rng) gen.Prog {
	s := func(x string) *string { return &x }
	var p gen.Prog
	varNames := []string{"VERSION", "NAME", "BIN", "ünï"}
	taskNames := []string{"build", "test", "default", "lint", "docs"}
	core.Shuffle(r, taskNames)
	nv := r.Range(0, 3)
	for i := 0; i < nv; i++ {
		st := gen.Stmt{Kind: "assign", Name: varNames[i]}
		if r.Chance(70) {
			st.Str = s(core.Pick(r, []string{"1.0", "spok", "a b", "", "x/y"}))
		} else {
			st.Call = "join"
			st.Args = []gen.Arg{{Text: "."}, {Text: core.Pick(r, []string{"bin", "out", "a/b"})}}
		}
		p.Stmts = append(p.Stmts, st)
		if r.Chance(30) {
			p.Stmts = append(p.Stmts, gen.Stmt{Kind: "comment", Text: core.Pick(r, []string{" a comment", "no space", "  two  "})})
		}
	}
	nt := r.Range(1, 4)
	var defined []string
	for i := 0; i < nt; i++ {
		st := gen.Stmt{Kind: "task", Name: taskNames[i]}
		if r.Chance(50) {
			st.Doc = s(core.Pick(r, []string{" Build it", "Test it  ", " docs"}))
		}
		for _, d := range defined {
			if r.Chance(30) {
				st.Deps = append(st.Deps, gen.Arg{Ident: true, Text: d})
			}
		}
		if r.Chance(60) {
			st.Deps = append(st.Deps, gen.Arg{Text: core.Pick(r, []string{"a.txt", "**/*.go", "src/*.go", "*.md"})})
		}
		if r.Chance(30) {
			st.Outs = append(st.Outs, gen.Arg{Text: core.Pick(r, []string{"out/bin", "dist", "*.o"})})
		}
		nc := r.Range(0, 3)
		for c := 0; c < nc; c++ {
			st.Cmds = append(st.Cmds, core.Pick(r, []string{"true", "printf hello", "test 1 = 1", "printf '%s' '{{.VERSION}}'", "printf x >&2", "true && true", "printf 'a\tb'", "printf 'x  y' ", "printf '%s' \"q\"\t",
				// failing commands have no side effects either
				"false", "test -s missing-input.txt", "exit 3"}))
		}
		defined = append(defined, st.Name)
		p.Stmts = append(p.Stmts, st)
	}
	p.Normalise()
	return p
}

func c19Gen(r *core.Rng) c19case {
	var k c19case
	p := c19Prog(r)
	lay := gen.Layout{C: gen.RandChooser{R: r}, EOL: []string{"\n", "\n", "\r\n"}[r.Intn(3)]}
	text := lay.Write(p)
	k.Variant = "valid"
	switch v := r.Intn(100); {
	case v < 55:
	case v < 70:
		k.Variant = "token-removed"
		toks := []string{"{", "}", "(", ")", "\"", ":=", "task"}
		core.Shuffle(r, toks)
		for _, t := range toks {
			if i := strings.Index(text, t); i >= 0 {
				text = text[:i] + text[i+len(t):]
				break
			}
		}
	case v < 78:
		k.Variant = "duplicate-task"
		text += "\ntask dup() {}\ntask dup() {\n    true\n}\n"
	case v < 84:
		k.Variant = "failing-exec"
		text = "BAD := exec(\"false\")\n" + text
	case v < 88:
		k.Variant = "unknown-builtin"
		text = "BAD := nope(\"x\")\n" + text
	case v < 91:
		k.Variant = "bad-template"
		text += "\ntask tpl() {\n    printf '%s' '" + core.Pick(r, []string{"{{json .State}}", "{{nosuchfunc}}", "{{if}}"}) + "'\n}\n"
	case v < 95:
		k.Variant = "none"
		text = ""
	default:
		k.Variant = "directory"
		text = ""
	}
	k.Spokfile = text
	for _, f := range c19FilePool {
		if r.Chance(65) {
			k.Files = append(k.Files, f)
		}
	}
	k.Nested = r.Chance(35)
	k.GitIgnore = r.Chance(50)
	k.SpokIsFile = r.Chance(8)
	k.StalePWD = r.Chance(15)
	k.Env = r.Intn(4)
	k.Linked = k.Variant != "none" && k.Variant != "directory" && r.Chance(12)
	var tasks []string
	for _, st := range p.Stmts {
		if st.Kind == "task" {
			tasks = append(tasks, st.Name)
		}
	}
	someTasks := func() []string {
		var out []string
		for _, t := range tasks {
			if r.Chance(60) {
				out = append(out, t)
			}
		}
		if len(out) == 0 {
			out = []string{tasks[0]}
		}
		if r.Chance(8) {
			out = append(out, "nosuchtask")
		}
		return out
	}
	switch r.Intn(16) {
	case 0:
		k.Args = nil
	case 1:
		k.Args = someTasks()
	case 2:
		k.Args = []string{"--show"}
	case 3:
		k.Args = []string{"--vars"}
	case 4, 5:
		k.Args = []string{"--fmt"}
	case 6, 7:
		k.Args = []string{"--init"}
		if k.Nested {
			k.InitHere = core.Pick(r, []string{"", "", "file", "dir", "symlink"})
		}
	case 8:
		k.Args = append([]string{"--force"}, someTasks()...)
	case 9:
		k.Args = append([]string{"--quiet"}, someTasks()...)
	case 10:
		k.Args = append([]string{"--json"}, someTasks()...)
	case 11:
		k.Args = append([]string{"--debug"}, someTasks()...)
	case 12:
		k.Args = core.Pick(r, [][]string{{"--fmt", "--show"}, {"--vars", "--show"}, {"--fmt", "--vars"}, {"--init", "--fmt"}, {"--fmt", "--quiet"}, {"--fmt", "--json"}})
	case 13:
		k.Args = append(core.Pick(r, [][]string{{"--json", "--force"}, {"--quiet", "--debug"}, {"--quiet", "--force"}, {"--debug", "--force"}}), someTasks()...)
	case 14:
		k.Args = core.Pick(r, [][]string{{"--fmt", "--debug"}, {"--spokfile", "@PROJ@/spokfile", "--fmt"}, {"--spokfile", "@PROJ@/spokfile", "--show"},
			{"--spokfile", "@PROJ@/Spokfile", "--fmt"}, {"--spokfile", "@PROJ@/Spokfile", "--vars"}})
	default:
		k.Args = []string{"--show", "--debug"}
	}
	return k
}

func c19Judge(c *core.Ctx, k c19case, res *core.ShardResult) (vs []core.Violation) {
	root := c.TempDir("c19-")
	defer func() { _ = os.RemoveAll(root) }()
	home := filepath.Join(root, "s1", "home")
	proj := filepath.Join(home, "proj")
	_ = os.MkdirAll(filepath.Join(proj, "nested", "dir"), 0o755)
	_ = os.WriteFile(filepath.Join(home, "above.txt"), []byte("above"), 0o644)
	_ = os.WriteFile(filepath.Join(home, ".profile"), []byte("export X=1\n"), 0o644)
	// another project beside this one (what a stale $PWD points at)
	_ = core.WriteFiles(filepath.Join(home, "otherproj"), map[string]string{"spokfile": "# the other project\ntask other(\"*.txt\") -> \"o.bin\" {\n    true\n}\n", "x.txt": "x\n", "o.bin": "o\n", ".gitignore": "old\n", "sub/keep": "k\n"})
	files := map[string]string{}
	for _, f := range k.Files {
		files[f] = "content of " + f + "\n"
		if f == ".env" {
			files[f] = "FROM_DOTENV=1\nVERSION=dotenv\n"
		}
	}
	_ = core.WriteFiles(proj, files)
	spokPath := filepath.Join(proj, "spokfile")
	switch k.Variant {
	case "none":
	case "directory":
		_ = os.MkdirAll(spokPath, 0o755)
		_ = os.WriteFile(filepath.Join(spokPath, "inner.txt"), []byte("x"), 0o644)
	default:
		if k.Linked {
			// shared between projects: the text lives in a sibling directory, the project holds a link to it.
			// The project (its files, its cache) is still where the link is.
			_ = os.MkdirAll(filepath.Join(home, "common"), 0o755)
			_ = os.WriteFile(filepath.Join(home, "common", "spokfile"), []byte(k.Spokfile), 0o644)
			_ = os.WriteFile(filepath.Join(home, "common", "a.txt"), []byte("not the project's a.txt\n"), 0o644)
			_ = os.Symlink(filepath.Join("..", "common", "spokfile"), spokPath)
			res.Count("linked_spokfiles", 1)
		} else {
			_ = os.WriteFile(spokPath, []byte(k.Spokfile), 0o644)
		}
	}
	cwd := proj
	if k.Nested {
		cwd = filepath.Join(proj, "nested", "dir")
	}
	if k.SpokIsFile {
		// the cache directory cannot be created: spok may fail, but must not go and write elsewhere
		_ = os.WriteFile(filepath.Join(proj, ".spok"), []byte("not a directory\n"), 0o644)
	}
	gitIgnoreOld := ""
	if k.GitIgnore {
		// (no trailing newline, leading blank lines, several trailing newlines, trailing escaped blank)
		gitIgnoreOld = []string{"node_modules/\n*.log", "\n\n# mine\nfoo\n\n\n", "a\\ \n", "  lead\nx \n", "\n",
			// .spok mentioned in other roles: part of another name, negated, in a comment, as a file pattern
			"docs/.spokes/\nlegacy.spok.bak\n", "# .spok/ is spok's cache\n!.spok/keep\n", "*.spok\n.spokfile\n"}[(len(k.Files)+len(k.Spokfile))%8]
		_ = os.WriteFile(filepath.Join(cwd, ".gitignore"), []byte(gitIgnoreOld), 0o644)
	}
	switch k.InitHere {
	case "file":
		_ = os.WriteFile(filepath.Join(cwd, "spokfile"), []byte("# mine\n"), 0o644)
	case "dir":
		_ = os.MkdirAll(filepath.Join(cwd, "spokfile"), 0o755)
	case "symlink":
		_ = os.WriteFile(filepath.Join(home, "shared-spokfile"), []byte("# shared\ntask shared() {}\n"), 0o644)
		_ = os.Symlink(filepath.Join(home, "shared-spokfile"), filepath.Join(cwd, "spokfile"))
	}
	bad := func(clause, format string, args ...any) {
		vs = append(vs, core.Violation{Property: "C19", Clause: clause, Key: k.key(), Detail: fmt.Sprintf(format, args...) + fmt.Sprintf("\nargs %v variant=%s nested=%v\nspokfile:\n%s", k.Args, k.Variant, k.Nested, core.Trunc(k.Spokfile, 1200))})
	}
	has := func(flag string) bool {
		for _, a := range k.Args {
			if a == flag {
				return true
			}
		}
		return false
	}

	// what the real parser and loader make of the spokfile (decides what --fmt may do)
	// A valid program must load and the unloadable variants must not: that is known from how the
	// case was built and is not asked of the code under test (a loader that wrongly accepts a broken
	// spokfile would otherwise vouch for itself). Only for the token-removed variant, which usually
	// but not always stops parsing, does the real parser/loader decide.
	parses, loads := false, false
	formatted := ""
	if k.Variant != "none" && k.Variant != "directory" {
		if tree, err := parser.New(k.Spokfile).Parse(); err == nil {
			parses = true
			formatted = tree.String()
			switch k.Variant {
			case "valid":
				loads = true
			case "token-removed":
				_, lerr := file.New(tree, proj, nullLogger{})
				loads = lerr == nil
			}
		}
	}

	args := append([]string{}, k.Args...)
	wrongName := false
	for i, a := range args {
		if strings.Contains(a, "@PROJ@") {
			args[i] = strings.ReplaceAll(a, "@PROJ@", proj)
			if strings.HasSuffix(a, "/Spokfile") {
				// a file that is not named spokfile: spok must refuse it and change nothing
				wrongName = true
				_ = os.WriteFile(filepath.Join(proj, "Spokfile"), []byte(k.Spokfile), 0o644)
			}
		}
	}
	before := core.Snap(root)
	traceFile := filepath.Join(root, "strace.out")
	env := core.HostileEnv(k.Env, home)
	if k.StalePWD {
		env = append(env, "PWD="+filepath.Join(home, "otherproj"), "OLDPWD="+filepath.Join(home, "otherproj", "sub"))
		res.Count("cases_with_a_stale_pwd", 1)
	}
	inv := core.RunSpok(core.SpokOpts{Bin: c.SpokRace(), Dir: cwd, Home: home, Args: args, Env: env, Prefix: core.StracePrefix(traceFile)})
	res.Evaluations++
	events, terr := core.ParseStrace(traceFile, cwd)
	if terr != nil {
		core.Fatal("strace produced no trace: %v; stderr: %s", terr, core.Trunc(inv.Stderr, 400))
	}
	_ = os.Remove(traceFile)
	after := core.Snap(root)
	diff := core.SnapDiff(before, after)
	defer func() {
		for i := range vs {
			vs[i].Events = map[string]any{"invocation": inv, "diff": diff, "events": events}
		}
	}()
	if inv.Crashed() || inv.Race || inv.TimedOut {
		bad("binary-no-crash", "spok crashed, raced or hung: %s", core.Trunc(inv.Stderr, 500))
		return
	}
	res.Seen("actions", strings.Join(flagsOnly(k.Args), " "))
	res.Seen("variants", k.Variant)

	// the allowed write set of this invocation
	allowed := map[string]string{} // absolute path -> why
	cacheDir := filepath.Join(proj, ".spok")
	allowCache := false
	switch {
	case has("--init"):
		target := filepath.Join(cwd, "spokfile")
		_, existedErr := os.Lstat(target)
		existedBefore := false
		if rel, err := filepath.Rel(root, target); err == nil {
			_, existedBefore = before[rel]
		}
		_ = existedErr
		if existedBefore {
			res.Count("init_on_existing_spokfile", 1)
			if inv.Exit == 0 {
				bad("init-never-overwrites", "--init exited 0 although %s already exists", target)
				return
			}
		} else {
			res.Count("init_fresh", 1)
			allowed[target] = "init creates the spokfile"
			allowed[filepath.Join(cwd, ".gitignore")] = "init appends to .gitignore"
			if inv.Exit != 0 {
				bad("init-creates-spokfile", "--init failed in a directory without a spokfile: %s", core.Trunc(inv.Stderr, 300))
				return
			}
			if b, err := os.ReadFile(target); err != nil || string(b) != c19Demo {
				bad("init-creates-spokfile", "--init did not create the demo spokfile at %s (err %v, content %q)", target, err, core.Trunc(string(b), 200))
				return
			}
			gb, err := os.ReadFile(filepath.Join(cwd, ".gitignore"))
			if err != nil || !strings.HasPrefix(string(gb), gitIgnoreOld) || string(gb) != gitIgnoreOld+c19GitIgnore {
				bad("init-appends-gitignore", ".gitignore after --init is %q, want the old content %q followed by the ignore entry", core.Trunc(string(gb), 300), gitIgnoreOld)
				return
			}
		}
	case wrongName:
		res.Count("wrongly_named_spokfile", 1)
		if inv.Exit == 0 {
			bad("spokfile-must-be-named-spokfile", "--spokfile pointed at a file named Spokfile and spok exited 0")
			return
		}
	case has("--quiet") && has("--debug"):
		// refused before anything is read
	case k.Variant == "none" || k.Variant == "directory":
		// nothing to find
		if inv.Exit == 0 {
			bad("no-spokfile-is-an-error", "there is no spokfile but spok exited 0")
			return
		}
	case !parses || !loads:
		res.Count("invalid_or_unloadable_spokfiles", 1)
		if inv.Exit == 0 {
			bad("invalid-spokfile-is-an-error", "the spokfile does not parse/load (parses=%v loads=%v) but spok exited 0", parses, loads)
			return
		}
	case has("--fmt"):
		res.Count("fmt_on_valid_spokfile", 1)
		allowed[spokPath] = "--fmt rewrites the spokfile"
		if k.Linked {
			allowed[filepath.Join(home, "common", "spokfile")] = "--fmt rewrites the spokfile (through the link)"
		}
		if inv.Exit != 0 {
			bad("fmt-succeeds", "--fmt failed on a spokfile that parses and loads: %s", core.Trunc(inv.Stderr, 300))
			return
		}
		b, _ := os.ReadFile(spokPath)
		if string(b) != formatted {
			bad("fmt-writes-formatter-output", "after --fmt the spokfile is %q, the formatter gives %q", core.Trunc(string(b), 400), core.Trunc(formatted, 400))
			return
		}
		if _, err := parser.New(string(b)).Parse(); err != nil {
			bad("fmt-result-parses", "the rewritten spokfile does not parse: %v", err)
			return
		}
		if rel, err := filepath.Rel(root, spokPath); err == nil && before[rel].Mode != after[rel].Mode {
			bad("fmt-rewrites-only-content", "--fmt changed the permissions of the spokfile from %o to %o", before[rel].Mode, after[rel].Mode)
			return
		}
	default:
		allowCache = true
	}
	okPath := func(p string) bool {
		p = filepath.Clean(p)
		if _, ok := allowed[p]; ok {
			return true
		}
		return allowCache && isUnder(p, cacheDir)
	}
	for _, p := range diff.Removed {
		bad("nothing-else-deleted", "%s was deleted", p)
		return
	}
	for _, p := range append(append([]string{}, diff.Added...), diff.Modified...) {
		a := filepath.Join(root, p)
		if okPath(a) {
			continue
		}
		if e, ok := after[p]; ok && e.Type == "dir" {
			if b, ok2 := before[p]; ok2 && b.Type == "dir" && b.Mode == e.Mode {
				continue
			}
		}
		bad("nothing-else-changed", "%s was created or modified (action %v may write %v%s)", p, k.Args, keys(allowed), map[bool]string{true: " and the cache directory", false: ""}[allowCache])
		return
	}
	for _, e := range events {
		if e.Child {
			continue // a command of a task (none of the generated commands writes)
		}
		if !okPath(e.Path) {
			bad("syscalls-within-write-set", "spok issued %s (%s %s); action %v may write %v%s", e.Raw, e.Kind, e.Path, k.Args, keys(allowed), map[bool]string{true: " and the cache directory", false: ""}[allowCache])
			return
		}
	}
	res.Count("mutating_syscalls_seen", int64(len(events)))
	res.Distinct(core.Hash64(k.key()))
	if len(events) > 0 {
		res.Sample(map[string]any{"args": k.Args, "variant": k.Variant, "nested": k.Nested, "changed": append(diff.Added, diff.Modified...)}, 3)
	}
	return
}

func flagsOnly(args []string) []string {
	var out []string
	for _, a := range args {
		if strings.HasPrefix(a, "-") {
			out = append(out, a)
		}
	}
	if len(out) == 0 {
		if len(args) == 0 {
			return []string{"(no arguments)"}
		}
		return []string{"(task names)"}
	}
	return out
}

func keys(m map[string]string) []string {
	var out []string
	for k := range m {
		out = append(out, k)
	}
	return out
}

func c19Run(c *core.Ctx) bool {
	n := c.Q(1200, 16000)
	results := make([]*core.ShardResult, n)
	core.ParallelFor(n, c.NCPU, func(i int) {
		results[i] = core.NewShardResult()
		k := c19Gen(c.Rng(core.StrKey("c19"), uint64(i)))
		for _, v := range c19Judge(c, k, results[i]) {
			v.Case = core.JSON(k)
			results[i].Violate(v)
		}
	})
	total := core.NewShardResult()
	for _, r := range results {
		total.Merge(r)
	}
	reportAll(c, total)
	distinct := total.DistinctCount()
	cov := map[string]any{
		"evaluations":         total.Evaluations,
		"distinct_nontrivial": distinct,
		"rule":                "random project trees (.env, hidden and nested files, files in $HOME above the project) x spokfiles {valid side-effect free program in a random admissible layout, the same with one structural token removed, duplicate task, failing exec, unknown builtin, a command that is not a valid template, no spokfile, a directory named spokfile} x actions {no args, task names, --show, --vars, --fmt, --init, --force, --quiet, --json, --debug and pairs} from the project root or a nested directory (--init also where a spokfile, a directory or symlink named spokfile or a .gitignore already exists); race-built binary under strace -f. Monitors: before/after snapshot of the whole sandbox and every successful mutating system call; oracle: the write set the action allows (cache directory for runs/listings; the spokfile for --fmt only if it parses and loads, and then exactly the formatter's output; a new spokfile plus an appended .gitignore for --init, nothing if one exists). evaluations = traced invocations; non-trivial = distinct cases that passed",
		"samples":             total.Samples,
		"counters":            total.Counters,
		"actions_seen":        total.SetValues("actions"),
		"variants_seen":       total.SetValues("variants"),
		"exhaustive":          false,
	}
	c.WriteEvidence("exploration", cov, []string{
		"whether a spokfile 'parses and loads' is decided by calling the real parser and loader in the harness on the same text; the expected --fmt content is the real formatter's output for the original",
		"generated task commands are side-effect free builtins (true, printf to stdout/stderr, test)",
	})
	c0 := total.Counters
	if distinct < 300 || c0["fmt_on_valid_spokfile"] == 0 || c0["init_fresh"] == 0 || c0["init_on_existing_spokfile"] == 0 || c0["invalid_or_unloadable_spokfiles"] == 0 || c0["mutating_syscalls_seen"] == 0 {
		fmt.Printf("INCONCLUSIVE: coverage floor missed %v\n", c0)
		return false
	}
	return true
}

func c19Replay(c *core.Ctx, v core.Violation) []core.Violation {
	var k c19case
	if err := json.Unmarshal(v.Case, &k); err != nil {
		core.Fatal("replay: %v", err)
	}
	vs := c19Judge(c, k, core.NewShardResult())
	for i := range vs {
		vs[i].Case = v.Case
	}
	return vs
}
