package props

// C20: reports and listings are a faithful, complete account of spokfile and run.

import (
	"encoding/json"
	"fmt"
	"os"
	"path/filepath"
	"sort"
	"strconv"
	"strings"

	"verif/harness/core"
)

func init() {
	register("C20", &Engine{Run: c20Run, Replay: c20Replay})
}

type c20task struct {
	Name   string   `json:"name"`
	Doc    *string  `json:"doc,omitempty"` // raw text after '#'
	Deps   []string `json:"deps,omitempty"`
	File   string   `json:"file,omitempty"` // file dependency ("" = none)
	NCmd   int      `json:"ncmd"`
	UseVar []string `json:"use_var,omitempty"` // per command: variable referenced in the marker ("" = none)
}

type c20case struct {
	Vars     [][2]string `json:"vars"` // name, value
	Tasks    []c20task   `json:"tasks"`
	Req      []string    `json:"req"`
	BadEnv   bool        `json:"bad_dotenv"`                // a .env file that cannot be parsed sits next to the spokfile
	Debug    bool        `json:"debug_with_json,omitempty"` // the second --json run also carries --debug (diagnostics belong on stderr)
	OldCache bool        `json:"old_cache,omitempty"`       // a cache written by an earlier run (other digests) is already there
}

func (k c20case) key() string { b, _ := json.Marshal(k); return string(b) }

var c20TaskNames = []string{"build", "test", "lint", "zeta", "alpha", "default", "deploy", "Mid", "default_x", "émile", "_gen", "x_"}
var c20VarNames = []string{"VERSION", "NAME", "OUT", "flag", "Zed"}
var c20Docs = []string{" 100% of the build", " Build the thing", "Run tests  ", "  padded  ", " ünï çødé", "x", " # hash inside", " with : punctuation, and (parens)", "",
	" Run the linters, e.g. golangci-lint and go vet", " [WIP] Build the docs", "[1/2] Configure. Then build.", " @deprecated use build", " TODO: write this", " !important"}

func c20Gen(r *core.Rng) c20case {
	var k c20case
	nv := r.Range(0, 5)
	for i := 0; i < nv; i++ {
		k.Vars = append(k.Vars, [2]string{c20VarNames[i], core.Pick(r, []string{"1.2.3", "spok", "a b", "", "x/y", "a+b", "x&y", "<tag>", "a=b", "50%", "%d items", "é日本", "v" + fmt.Sprint(r.Intn(100))})})
	}
	names := append([]string{}, c20TaskNames...)
	core.Shuffle(r, names)
	n := r.Range(1, 5)
	hasDefault := r.Chance(45)
	if hasDefault {
		// make sure "default" is among the first n names
		for i, nm := range names {
			if nm == "default" {
				j := r.Intn(n)
				names[i], names[j] = names[j], names[i]
			}
		}
	} else {
		var f []string
		for _, nm := range names {
			if nm != "default" {
				f = append(f, nm)
			}
		}
		names = f
	}
	for i := 0; i < n; i++ {
		t := c20task{Name: names[i], NCmd: r.Range(0, 4)}
		if r.Chance(60) {
			d := core.Pick(r, c20Docs)
			t.Doc = &d
		}
		for j := 0; j < i; j++ {
			if r.Chance(35) {
				t.Deps = append(t.Deps, names[j])
			}
		}
		if r.Chance(55) {
			t.File = core.Pick(r, []string{"a.txt", "b.txt", "src/c.txt"})
		}
		for c := 0; c < t.NCmd; c++ {
			v := ""
			if len(k.Vars) > 0 && r.Chance(40) {
				v = core.Pick(r, k.Vars)[0]
			} else if r.Chance(15) {
				v = "-"
			} else if r.Chance(2) {
				v = "+" // a command that prints 2 MiB on each stream
			}
			t.UseVar = append(t.UseVar, v)
		}
		k.Tasks = append(k.Tasks, t)
	}
	for _, t := range k.Tasks {
		if r.Chance(50) {
			k.Req = append(k.Req, t.Name)
		}
	}
	if len(k.Req) == 0 {
		k.Req = []string{k.Tasks[len(k.Tasks)-1].Name}
	}
	core.Shuffle(r, k.Req)
	k.BadEnv = r.Chance(6)
	k.Debug = r.Chance(30)
	k.OldCache = r.Chance(25)
	// a command that leaves a job in the background which prints later, followed by a slow command
	for i := range k.Tasks {
		if k.Tasks[i].NCmd >= 2 && r.Chance(4) {
			k.Tasks[i].UseVar[0], k.Tasks[i].UseVar[1] = "&", "z"
		}
	}
	return k
}

func (k c20case) varValue(name string) string {
	for _, v := range k.Vars {
		if v[0] == name {
			return v[1]
		}
	}
	return ""
}

// cmdText returns the command as written (tpl=true) or after substitution.
func (k c20case) cmdText(t c20task, i int, logPath string, tpl bool) string {
	tag := ""
	if v := t.UseVar[i]; v != "" && v != "-" && v != "+" && v != "&" && v != "z" {
		if tpl {
			tag = ".{{." + v + "}}"
		} else {
			tag = "." + k.varValue(v)
		}
	}
	if t.UseVar[i] == "+" {
		// 16 bytes doubled 17 times: 2 MiB and a newline on stdout, 2 MiB on stderr, built inside the shell
		return fmt.Sprintf("printf '%%s\\n' %s.%d >> %s && s=0123456789abcdef && s=$s$s$s$s && s=$s$s$s$s && s=$s$s$s$s && s=$s$s$s$s && s=$s$s$s$s && s=$s$s$s$s && s=$s$s$s$s && s=$s$s$s$s && s=$s$s && printf '%%s\\n' \"$s\" && printf '%%s' \"$s\" >&2", c20ascii(t.Name), i, logPath)
	}
	if t.UseVar[i] == "&" {
		return fmt.Sprintf("printf '%%s\\n' %s.%d >> %s; sh -c 'sleep 0.2; printf LATE; printf LATEERR >&2' & printf 'O.%s.%d'", c20ascii(t.Name), i, logPath, c20ascii(t.Name), i)
	}
	if t.UseVar[i] == "z" {
		return fmt.Sprintf("printf '%%s\\n' %s.%d >> %s && sleep 0.5 && printf 'O.%s.%d' && printf 'E.%s.%d' >&2", c20ascii(t.Name), i, logPath, c20ascii(t.Name), i, c20ascii(t.Name), i)
	}
	if t.UseVar[i] == "-" {
		// a command that prints nothing at all
		return fmt.Sprintf("printf '%%s\\n' %s.%d >> %s", c20ascii(t.Name), i, logPath)
	}
	return fmt.Sprintf("printf '%%s\\n' %s.%d >> %s && printf '%%s\\r\\n' 'O.%s.%d%s \"q\" \\b' && printf '\\033[31mred\\033[0m\\a\\n' && printf '%%s\\n' 'E.%s.%d' >&2", c20ascii(t.Name), i, logPath, c20ascii(t.Name), i, tag, c20ascii(t.Name), i)
}

// c20q quotes a stream for a report, long ones by length and ends.
func c20q(s string) string {
	if len(s) <= 300 {
		return strconv.Quote(s)
	}
	return fmt.Sprintf("(%d bytes) %q...%q", len(s), s[:40], s[len(s)-40:])
}

// c20ascii: command text must be ASCII, task names need not be.
func c20ascii(name string) string {
	if name == "émile" {
		return "emile"
	}
	return name
}

func (k c20case) text(logPath string) string {
	var b strings.Builder
	for _, v := range k.Vars {
		fmt.Fprintf(&b, "%s := \"%s\"\n", v[0], v[1])
	}
	b.WriteString("\n")
	for _, t := range k.Tasks {
		if t.Doc != nil {
			b.WriteString("#" + *t.Doc + "\n")
		}
		deps := append([]string{}, t.Deps...)
		if t.File != "" {
			deps = append(deps, `"`+t.File+`"`)
		}
		fmt.Fprintf(&b, "task %s(%s) {\n", t.Name, strings.Join(deps, ", "))
		for i := 0; i < t.NCmd; i++ {
			b.WriteString("    " + k.cmdText(t, i, logPath, true) + "\n")
		}
		b.WriteString("}\n\n")
	}
	return b.String()
}

func (k c20case) task(name string) *c20task {
	for i := range k.Tasks {
		if k.Tasks[i].Name == name {
			return &k.Tasks[i]
		}
	}
	return nil
}

func (k c20case) closure(req []string) map[string]bool {
	seen := map[string]bool{}
	var visit func(string)
	visit = func(n string) {
		if seen[n] {
			return
		}
		seen[n] = true
		if t := k.task(n); t != nil {
			for _, d := range t.Deps {
				visit(d)
			}
		}
	}
	for _, r := range req {
		visit(r)
	}
	return seen
}

func c20Judge(c *core.Ctx, k c20case, res *core.ShardResult) (vs []core.Violation) {
	sb := newSandbox(c.TempDir("c20-"))
	defer os.RemoveAll(sb.Root)
	text := k.text(sb.Log)
	_ = os.WriteFile(filepath.Join(sb.Proj, "spokfile"), []byte(text), 0o644)
	_ = core.WriteFiles(sb.Proj, map[string]string{"a.txt": "a", "b.txt": "b", "src/c.txt": "c"})
	bad := func(clause, format string, args ...any) {
		vs = append(vs, core.Violation{Property: "C20", Clause: clause, Key: k.key(), Detail: fmt.Sprintf(format, args...) + fmt.Sprintf("\nrequest %v\nspokfile:\n%s", k.Req, text)})
	}
	if k.OldCache {
		entries := map[string]string{}
		for i, t := range k.Tasks {
			entries[t.Name] = fmt.Sprintf("%064x", i+1)
		}
		b, _ := json.Marshal(entries)
		_ = core.WriteFiles(sb.Proj, map[string]string{".spok/cache.json": string(b), ".spok/.gitignore": "*\n", ".spok/CACHEDIR.TAG": "Signature: 8a477f597d28d172789f06886806bc55"})
		res.Count("cases_with_an_older_cache", 1)
	}
	if k.BadEnv {
		// spok may refuse to run with a .env it cannot read; if it runs, what it prints must still be right
		_ = os.WriteFile(filepath.Join(sb.Proj, ".env"), []byte("set -a\nthis is not = a valid line\n'\n"), 0o644)
		probe := core.RunSpok(core.SpokOpts{Bin: c.SpokRace(), Dir: sb.Proj, Home: sb.Home, Args: []string{"--show"}})
		res.Evaluations++
		if probe.Exit != 0 {
			res.Count("bad_dotenv_refused", 1)
			return
		}
		res.Count("bad_dotenv_tolerated", 1)
	}
	// the ambient environment happens to hold some of the variables, with the very same values
	var ambient []string
	for i, v := range k.Vars {
		if i%2 == 0 && v[1] != "" {
			ambient = append(ambient, v[0]+"="+v[1])
		}
	}
	run := func(args ...string) (core.Invocation, []string) {
		_ = os.Remove(sb.Log)
		inv := core.RunSpok(core.SpokOpts{Bin: c.SpokRace(), Dir: sb.Proj, Home: sb.Home, Args: args, Env: ambient})
		res.Evaluations++
		return inv, sb.readLog()
	}
	crashed := func(inv core.Invocation) bool {
		if inv.Crashed() || inv.Race || inv.TimedOut {
			bad("binary-no-crash", "spok crashed, raced or hung: %s", core.Trunc(inv.Stderr, 500))
			return true
		}
		return false
	}

	// --json runs: first (everything executes), second (file-dependent tasks are skipped),
	// third after an edit
	checkJSON := func(round int, req []string) bool {
		flags := []string{"--json"}
		if k.Debug && round == 2 {
			flags = append(flags, "--debug")
			res.Count("json_runs_with_debug", 1)
		}
		inv, log := run(append(flags, req...)...)
		if crashed(inv) {
			return false
		}
		if inv.Exit != 0 {
			bad("run-succeeds", "round %d: spok --json %v failed: %s", round, req, core.Trunc(inv.Stderr, 300))
			return false
		}
		out := inv.Stdout
		if !strings.HasSuffix(out, "\n") || strings.Count(strings.TrimSuffix(out, "\n"), "\n") != 0 {
			bad("single-json-document", "round %d: stdout is not exactly one line holding one JSON document: %q", round, core.Trunc(out, 300))
			return false
		}
		var jr []jsonResult
		dec := json.NewDecoder(strings.NewReader(out))
		if err := dec.Decode(&jr); err != nil {
			bad("single-json-document", "round %d: stdout does not decode: %v: %q", round, err, core.Trunc(out, 300))
			return false
		}
		if dec.More() {
			bad("single-json-document", "round %d: more than one JSON value on stdout", round)
			return false
		}
		closure := k.closure(req)
		if len(req) == 0 {
			closure = k.closure([]string{"default"})
		}
		pos := map[string]int{}
		for i, r := range jr {
			if _, dup := pos[r.Task]; dup {
				bad("lists-exactly-the-tasks", "round %d: task %s listed twice", round, r.Task)
				return false
			}
			pos[r.Task] = i
			if !closure[r.Task] {
				bad("lists-exactly-the-tasks", "round %d: task %s is listed but is not part of the run", round, r.Task)
				return false
			}
		}
		for n := range closure {
			if _, ok := pos[n]; !ok {
				bad("lists-exactly-the-tasks", "round %d: task %s took part in the run but is not listed (%v)", round, n, pos)
				return false
			}
		}
		// execution order: the side-effect log for executed tasks
		var execOrder []string
		seenT := map[string]bool{}
		for _, l := range log {
			name := l[:strings.LastIndex(l, ".")]
			if name == "emile" {
				name = "émile"
			}
			if !seenT[name] {
				seenT[name] = true
				execOrder = append(execOrder, name)
			}
		}
		var listedExec []string
		for _, r := range jr {
			t := k.task(r.Task)
			if seenT[r.Task] {
				listedExec = append(listedExec, r.Task)
			}
			executed := seenT[r.Task]
			switch {
			case r.Skipped && executed:
				bad("skipped-flag", "round %d: task %s is reported skipped but its commands ran", round, r.Task)
				return false
			case !r.Skipped && !executed && t.NCmd > 0:
				bad("skipped-flag", "round %d: task %s is reported as run but none of its commands ran", round, r.Task)
				return false
			}
			if r.Skipped && t.File == "" {
				bad("skipped-flag", "round %d: task %s has no file dependency (it always runs) but is reported skipped", round, r.Task)
				return false
			}
			if r.Skipped || t.NCmd == 0 {
				if len(r.Results) != 0 {
					bad("commands-of-skipped-task", "round %d: task %s (skipped=%v, %d commands) lists %d command results", round, r.Task, r.Skipped, t.NCmd, len(r.Results))
					return false
				}
				if r.Skipped {
					res.Count("skipped_tasks_in_reports", 1)
				}
				continue
			}
			if len(r.Results) != t.NCmd {
				bad("every-executed-command", "round %d: task %s has %d commands, the report lists %d", round, r.Task, t.NCmd, len(r.Results))
				return false
			}
			for i, cr := range r.Results {
				wantCmd := k.cmdText(*t, i, sb.Log, false)
				tag := ""
				if v := t.UseVar[i]; v != "" && v != "-" && v != "+" && v != "&" && v != "z" {
					tag = "." + k.varValue(v)
				}
				wantOut := fmt.Sprintf("O.%s.%d%s \"q\" \\b\r\n\x1b[31mred\x1b[0m\a\n", c20ascii(t.Name), i, tag)
				wantErr := fmt.Sprintf("E.%s.%d\n", c20ascii(t.Name), i)
				if t.UseVar[i] == "-" {
					wantOut, wantErr = "", ""
				}
				if t.UseVar[i] == "z" {
					wantOut, wantErr = fmt.Sprintf("O.%s.%d", c20ascii(t.Name), i), fmt.Sprintf("E.%s.%d", c20ascii(t.Name), i)
					res.Count("command_records_after_a_background_job", 1)
				}
				if t.UseVar[i] == "&" {
					// what the job prints after the command has returned may or may not be part of that
					// command's record; it is never part of another command's
					wantOut, wantErr = fmt.Sprintf("O.%s.%d", c20ascii(t.Name), i), ""
					if cr.Stdout == wantOut+"LATE" {
						wantOut = cr.Stdout
					}
					if cr.Stderr == "LATEERR" {
						wantErr = cr.Stderr
					}
				}
				if t.UseVar[i] == "+" {
					wantErr = strings.Repeat("0123456789abcdef", 1<<17)
					wantOut = wantErr + "\n"
					res.Count("command_records_with_2MiB_streams", 1)
				}
				if cr.Cmd != wantCmd || cr.Stdout != wantOut || cr.Stderr != wantErr || cr.Status != 0 {
					bad("command-record", "round %d: task %s command %d is reported as cmd=%q stdout=%s stderr=%s status=%d; want cmd=%q stdout=%s stderr=%s status=0", round, r.Task, i, cr.Cmd, c20q(cr.Stdout), c20q(cr.Stderr), cr.Status, wantCmd, c20q(wantOut), c20q(wantErr))
					return false
				}
				res.Count("command_records_checked", 1)
			}
		}
		if strings.Join(execOrder, ",") != strings.Join(listedExec, ",") {
			bad("execution-order", "round %d: tasks executed in the order %v but listed as %v", round, execOrder, listedExec)
			return false
		}
		for n := range closure {
			for _, d := range k.task(n).Deps {
				if pos[d] > pos[n] {
					bad("execution-order", "round %d: task %s is listed before its dependency %s", round, n, d)
					return false
				}
			}
		}
		return true
	}
	if !checkJSON(1, k.Req) || !checkJSON(2, k.Req) {
		return
	}
	_ = os.WriteFile(filepath.Join(sb.Proj, "a.txt"), []byte("edited"), 0o644)
	if !checkJSON(3, k.Req) {
		return
	}

	// --quiet: stdout empty
	_ = os.WriteFile(filepath.Join(sb.Proj, "b.txt"), []byte("edited"), 0o644)
	invQ, logQ := run(append([]string{"--quiet"}, k.Req...)...)
	if crashed(invQ) {
		return
	}
	if invQ.Exit != 0 || invQ.Stdout != "" {
		bad("quiet-stdout-empty", "spok --quiet: exit %d, stdout %q", invQ.Exit, core.Trunc(invQ.Stdout, 200))
		return
	}
	_ = logQ

	// --show: every task once, sorted, with its docstring
	checkListing := func(inv core.Invocation, what string) bool {
		if inv.Exit != 0 {
			bad("show-lists-tasks", "%s failed: %s", what, core.Trunc(inv.Stderr, 300))
			return false
		}
		lines := strings.Split(strings.TrimSuffix(inv.Stdout, "\n"), "\n")
		if len(lines) < 2 || !strings.HasPrefix(lines[0], "Tasks defined in ") || strings.Join(strings.Fields(lines[1]), " ") != "Name Description" {
			bad("show-lists-tasks", "%s: unexpected header %q", what, core.Trunc(inv.Stdout, 200))
			return false
		}
		var names []string
		for _, t := range k.Tasks {
			names = append(names, t.Name)
		}
		sort.Strings(names)
		rows := lines[2:]
		if len(rows) != len(names) {
			bad("show-lists-tasks", "%s lists %d rows for %d tasks: %q", what, len(rows), len(names), rows)
			return false
		}
		for i, row := range rows {
			name, doc, _ := strings.Cut(row, "\t")
			t := k.task(names[i])
			wantDoc := ""
			if t.Doc != nil {
				wantDoc = strings.TrimSpace(*t.Doc)
			}
			if strings.TrimSpace(name) != names[i] || strings.TrimSpace(doc) != wantDoc {
				bad("show-lists-tasks", "%s row %d is %q; want task %q with docstring %q (sorted by name)", what, i, row, names[i], wantDoc)
				return false
			}
		}
		res.Count("listings_checked", 1)
		return true
	}
	invS, _ := run("--show")
	if crashed(invS) || !checkListing(invS, "spok --show") {
		return
	}

	// --vars
	invV, _ := run("--vars")
	if crashed(invV) {
		return
	}
	if invV.Exit != 0 {
		bad("vars-lists-values", "spok --vars failed: %s", core.Trunc(invV.Stderr, 300))
		return
	}
	{
		lines := strings.Split(strings.TrimSuffix(invV.Stdout, "\n"), "\n")
		sorted := append([][2]string{}, k.Vars...)
		sort.Slice(sorted, func(i, j int) bool { return sorted[i][0] < sorted[j][0] })
		if len(lines) < 2 || len(lines)-2 != len(sorted) {
			bad("vars-lists-values", "--vars prints %d rows for %d variables: %q", len(lines)-2, len(sorted), core.Trunc(invV.Stdout, 300))
			return
		}
		for i, v := range sorted {
			name, val, _ := strings.Cut(lines[2+i], "\t")
			if strings.TrimSpace(name) != v[0] || strings.TrimSpace(val) != strings.TrimSpace(v[1]) {
				bad("vars-lists-values", "--vars row %d is %q; want %s = %q", i, lines[2+i], v[0], v[1])
				return
			}
		}
	}

	// no arguments: the task named default, else the listing
	_ = os.WriteFile(filepath.Join(sb.Proj, "a.txt"), []byte("edited again"), 0o644)
	_ = os.RemoveAll(filepath.Join(sb.Proj, ".spok"))
	jsonDefault := k.task("default") != nil && len(k.Tasks)%2 == 0
	var invD core.Invocation
	var logD []string
	if jsonDefault {
		// the same with --json: the document must list default's closure
		if !checkJSON(4, nil) {
			return
		}
		res.Count("no_args_with_default_json", 1)
		_ = os.RemoveAll(filepath.Join(sb.Proj, ".spok"))
	}
	invD, logD = run()
	if crashed(invD) {
		return
	}
	if k.task("default") != nil {
		res.Count("no_args_with_default", 1)
		want := k.closure([]string{"default"})
		ran := map[string]bool{}
		for _, l := range logD {
			n := l[:strings.LastIndex(l, ".")]
			if n == "emile" {
				n = "émile"
			}
			ran[n] = true
		}
		for n := range want {
			if k.task(n).NCmd > 0 && !ran[n] {
				bad("no-args-runs-default", "spok without arguments did not run %s, which default's closure contains (exit %d, log %v)", n, invD.Exit, logD)
				return
			}
		}
		for n := range ran {
			if !want[n] {
				bad("no-args-runs-default", "spok without arguments ran %s, which is not in default's closure", n)
				return
			}
		}
		if invD.Exit != 0 {
			bad("no-args-runs-default", "spok without arguments failed: %s", core.Trunc(invD.Stderr, 300))
			return
		}
	} else {
		res.Count("no_args_without_default", 1)
		if len(logD) != 0 {
			bad("no-args-lists-tasks", "no task is named default but spok without arguments ran commands: %v", logD)
			return
		}
		if !checkListing(invD, "spok without arguments") {
			return
		}
	}
	res.Distinct(core.Hash64(k.key()))
	res.Sample(map[string]any{"spokfile": text, "request": k.Req}, 2)
	return
}

func c20Run(c *core.Ctx) bool {
	n := c.Q(500, 8000)
	results := make([]*core.ShardResult, n)
	core.ParallelFor(n, c.NCPU, func(i int) {
		results[i] = core.NewShardResult()
		k := c20Gen(c.Rng(core.StrKey("c20"), uint64(i)))
		for _, v := range c20Judge(c, k, results[i]) {
			v.Case = core.JSON(k)
			results[i].Violate(v)
		}
	})
	total := core.NewShardResult()
	for _, r := range results {
		total.Merge(r)
	}
	reportAll(c, total)
	distinct := total.DistinctCount()
	cov := map[string]any{
		"evaluations":         total.Evaluations,
		"distinct_nontrivial": distinct,
		"rule":                "random spokfiles (1-5 tasks incl. sometimes one named default, 0-4 commands each appending to a side-effect log and printing distinct markers to stdout and stderr, some markers containing {{.VAR}}; 0-5 variables; docstrings incl. padded/non-ASCII; task and file dependencies) x 8 invocations of the race-built binary each: --json three times (first run, repeated run with skipped tasks, after an edit), --quiet, --show, --vars, and no arguments; compared with the generating structure and the side-effect log. evaluations = spok invocations; non-trivial = distinct programs that passed all comparisons",
		"samples":             total.Samples,
		"counters":            total.Counters,
		"exhaustive":          false,
	}
	c.WriteEvidence("exploration", cov, []string{
		"judged on failure-free runs only (the statement's quantifier)",
		"execution order = order of first appearance of each task in the side-effect log",
	})
	if distinct < 100 || total.Counters["skipped_tasks_in_reports"] == 0 || total.Counters["no_args_with_default"] == 0 || total.Counters["no_args_without_default"] == 0 {
		fmt.Println("INCONCLUSIVE: coverage floor missed")
		return false
	}
	return true
}

func c20Replay(c *core.Ctx, v core.Violation) []core.Violation {
	var k c20case
	if err := json.Unmarshal(v.Case, &k); err != nil {
		core.Fatal("replay: %v", err)
	}
	vs := c20Judge(c, k, core.NewShardResult())
	for i := range vs {
		vs[i].Case = v.Case
	}
	return vs
}
