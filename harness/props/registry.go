// Package props holds one engine per property (some share a driver).
package props

import (
	"encoding/json"
	"fmt"
	"os"
	"sort"
	"sync"

	"verif/harness/core"
)

// Engine is what a property check consists of.
type Engine struct {
	// Run is the orchestrator: it explores, reports violations through ctx.Report,
	// writes the evidence file and returns false if the coverage floor was missed
	// (inconclusive: exit 2).
	Run func(c *core.Ctx) bool
	// Worker runs one shard in a child process (optional).
	Worker func(c *core.Ctx)
	// Replay re-executes the case of a recorded violation against the current tree
	// and returns the violations it finds now.
	Replay func(c *core.Ctx, v core.Violation) []core.Violation
}

var engines = map[string]*Engine{}

func register(id string, e *Engine) { engines[id] = e }

func Get(id string) *Engine { return engines[id] }

func IDs() []string {
	var ids []string
	for k := range engines {
		ids = append(ids, k)
	}
	sort.Strings(ids)
	return ids
}

// ReplayFile loads a replay file and re-decides it.
func ReplayFile(c *core.Ctx, path string) int {
	b, err := os.ReadFile(path)
	if err != nil {
		core.Fatal("replay: %v", err)
	}
	var v core.Violation
	if err := json.Unmarshal(b, &v); err != nil {
		core.Fatal("replay: %v", err)
	}
	e := Get(c.Prop)
	if e == nil || e.Replay == nil {
		core.Fatal("no replay for %s", c.Prop)
	}
	c.Tier = v.Tier
	c.Seed = v.Seed
	vs := e.Replay(c, v)
	if len(vs) == 0 {
		fmt.Printf("REPLAY: property=%s held on the recorded case\n", c.Prop)
		return 0
	}
	for _, nv := range vs {
		c.Report(nv)
	}
	if c.Violations() > 0 {
		return 1
	}
	return 0
}

// finish is the common tail of every orchestrator: report violations, deaths, and
// decide the exit status contribution.
func reportAll(c *core.Ctx, res *core.ShardResult) {
	for _, v := range res.Violations {
		c.Report(v)
	}
}

// deathPolicy turns worker deaths into violations (for the properties that own
// crashes, races and non-termination) or into an inconclusive run.
func deathViolation(prop string, d core.Death, clause string) core.Violation {
	key := d.Kind
	if d.Located {
		key += ":" + string(d.Case)
	}
	return core.Violation{
		Property: prop, Clause: clause, Key: key,
		Detail: fmt.Sprintf("worker %d died: kind=%s exit=%d signal=%s block=%d index=%d located=%v", d.Shard, d.Kind, d.Exit, d.Signal, d.Block, d.Index, d.Located),
		Case:   d.Case,
		Events: map[string]any{"stderr_tail": d.StderrTail, "race_log": d.RaceLog},
	}
}

var repOnce sync.Once
