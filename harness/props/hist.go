package props

// History machinery shared by C01, C02, C14 (and C10): project states, operations,
// the cache reference model and the monitor that judges one invocation.

import (
	"encoding/json"
	"fmt"
	"os"
	"path/filepath"
	"sort"
	"strings"
	"time"

	"verif/harness/core"
	"verif/harness/ref"

	"github.com/FollowTheProcess/spok/file"
	"github.com/FollowTheProcess/spok/iostream"
	"github.com/FollowTheProcess/spok/parser"
	"github.com/FollowTheProcess/spok/shell"
	"github.com/FollowTheProcess/spok/verifhook"
)

// ---------------------------------------------------------------------------
// Shapes

type htask struct {
	Name  string   `json:"name"`
	Lits  []string `json:"lits,omitempty"`
	Globs []string `json:"globs,omitempty"`
	Deps  []string `json:"deps,omitempty"`
	NCmd  int      `json:"ncmd"`
	// Copies are performed by the task's first command (cp src dst, relative to the project),
	// after its fail test and before its ok marker: a generated file another task may depend on.
	Copies [][2]string `json:"copies,omitempty"`
	Outs   []string    `json:"outs,omitempty"`    // declared outputs (literals or globs): no influence on whether the task is up to date
	CmdTag string      `json:"cmd_tag,omitempty"` // appended to every command as " && : <tag>": the command text changes, the inputs do not
}

// declOf is the task's file-dependency declaration as written.
func declOf(t *htask) string {
	// (as multisets: the order in which dependencies are listed does not change the set of paths
	// they name; how often one is listed may - cf. duplicates in C04)
	l := append([]string{}, t.Lits...)
	g := append([]string{}, t.Globs...)
	sort.Strings(l)
	sort.Strings(g)
	return "L:" + strings.Join(l, ",") + "|G:" + strings.Join(g, ",")
}

// which tasks C02 is demanded of in a judged run
type c02mode int

const (
	c02None     c02mode = iota // nothing demanded (model update only)
	c02All                     // every task
	c02SameDecl                // the spokfile has been edited: only tasks whose declaration is the one of their last success
)

type hshape struct {
	Name  string      `json:"name"`
	Tasks []htask     `json:"tasks"`
	Files []string    `json:"files"`           // project files the history may create, edit and delete
	Links [][2]string `json:"links,omitempty"` // (file, target): the file may also be made a symbolic link to the target
	Stamp bool        `json:"stamp,omitempty"` // a variable STAMP := exec("date +%s%N") is interpolated into every first command
}

func (s hshape) task(name string) *htask {
	for i := range s.Tasks {
		if s.Tasks[i].Name == name {
			return &s.Tasks[i]
		}
	}
	return nil
}

var histShapes = []hshape{
	{Name: "two-literal", Tasks: []htask{{Name: "A", Lits: []string{"a.txt"}, NCmd: 1}, {Name: "B", Lits: []string{"b.txt"}, NCmd: 2}}, Files: []string{"a.txt", "b.txt"}},
	{Name: "literal-and-nofile", Tasks: []htask{{Name: "A", Lits: []string{"a.txt"}, NCmd: 2}, {Name: "N", NCmd: 1}}, Files: []string{"a.txt"}},
	{Name: "glob", Tasks: []htask{{Name: "A", Globs: []string{"*.txt"}, NCmd: 1}, {Name: "B", Lits: []string{"b.txt"}, NCmd: 1}}, Files: []string{"a.txt", "b.txt", ".h.txt"}},
	{Name: "shared-file", Tasks: []htask{{Name: "A", Lits: []string{"a.txt"}, NCmd: 1}, {Name: "B", Lits: []string{"a.txt", "b.txt"}, NCmd: 1}}, Files: []string{"a.txt", "b.txt"}},
	{Name: "task-dependency", Tasks: []htask{{Name: "A", Lits: []string{"a.txt"}, NCmd: 1}, {Name: "B", Lits: []string{"b.txt"}, Deps: []string{"A"}, NCmd: 1}}, Files: []string{"a.txt", "b.txt"}},
	{Name: "recursive-glob", Tasks: []htask{{Name: "A", Globs: []string{"**/*.txt"}, NCmd: 1}, {Name: "N", NCmd: 1}}, Files: []string{"a.txt", "sub/s.txt", "sub/.h.txt"}},
	{Name: "literal-plus-glob", Tasks: []htask{{Name: "A", Lits: []string{"a.txt"}, Globs: []string{"sub/*.txt"}, NCmd: 1}, {Name: "B", Globs: []string{"*.txt"}, NCmd: 1}}, Files: []string{"a.txt", "sub/s.txt"}},
	{Name: "same-glob-different-literals", Tasks: []htask{{Name: "A", Globs: []string{"*.txt"}, NCmd: 1}, {Name: "B", Lits: []string{"c.cfg"}, Globs: []string{"*.txt"}, NCmd: 1}}, Files: []string{"a.txt", "c.cfg"}},
	{Name: "file-named-twice", Tasks: []htask{{Name: "A", Lits: []string{"a.txt"}, Globs: []string{"*.txt"}, NCmd: 1}, {Name: "B", Globs: []string{"*.txt", "**/*.txt"}, NCmd: 1}}, Files: []string{"a.txt", "b.txt"}},
	{Name: "names-differing-in-case", Tasks: []htask{{Name: "A", Lits: []string{"a.txt"}, NCmd: 1}, {Name: "a", Lits: []string{"a.txt"}, NCmd: 1}}, Files: []string{"a.txt"}},
	{Name: "symlinked-dependency", Tasks: []htask{{Name: "A", Lits: []string{"l.txt"}, NCmd: 1}, {Name: "B", Globs: []string{"*.txt"}, NCmd: 1}}, Files: []string{"a.txt", "l.txt"}, Links: [][2]string{{"l.txt", "a.txt"}}},
	{Name: "same-base-name", Tasks: []htask{{Name: "A", Globs: []string{"**/*.txt"}, NCmd: 1}, {Name: "B", Lits: []string{"sub/a.txt"}, NCmd: 1}}, Files: []string{"a.txt", "sub/a.txt"}},
	{Name: "self-rewritten-dependency", Tasks: []htask{{Name: "A", Lits: []string{"m.txt"}, NCmd: 1, Copies: [][2]string{{"x.txt", "m.txt"}}}, {Name: "B", Lits: []string{"m.txt"}, Deps: []string{"A"}, NCmd: 1}}, Files: []string{"m.txt", "x.txt"}},
	{Name: "default-task", Tasks: []htask{{Name: "build", Lits: []string{"a.txt"}, NCmd: 1}, {Name: "default", Lits: []string{"b.txt"}, Deps: []string{"build"}, NCmd: 1}}, Files: []string{"a.txt", "b.txt"}},
	{Name: "volatile-variable-in-command", Stamp: true, Tasks: []htask{{Name: "A", Lits: []string{"a.txt"}, NCmd: 1}, {Name: "B", Globs: []string{"*.txt"}, NCmd: 2}}, Files: []string{"a.txt"}},
	{Name: "non-ascii-task-name", Tasks: []htask{{Name: "übersetzen", Lits: []string{"a.txt"}, NCmd: 1}, {Name: "B", Lits: []string{"a.txt"}, Deps: []string{"übersetzen"}, NCmd: 1}}, Files: []string{"a.txt"}},
	{Name: "names-a-tool-might-reserve", Tasks: []htask{{Name: "last", Lits: []string{"a.txt"}, NCmd: 1}, {Name: "version", Lits: []string{"b.txt"}, Deps: []string{"last"}, NCmd: 1}}, Files: []string{"a.txt", "b.txt"}},
	{Name: "declared-output-feeds-a-glob", Tasks: []htask{{Name: "A", Lits: []string{"a.txt"}, NCmd: 1, Copies: [][2]string{{"a.txt", "g.txt"}}, Outs: []string{"g.txt"}}, {Name: "B", Lits: []string{"b.txt"}, Globs: []string{"g*.txt"}, Deps: []string{"A"}, NCmd: 1}}, Files: []string{"a.txt", "b.txt", "g.txt"}},
	{Name: "generator-two-levels-up", Tasks: []htask{{Name: "A", Lits: []string{"a.txt"}, NCmd: 1, Copies: [][2]string{{"a.txt", "g.txt"}}}, {Name: "B", Lits: []string{"b.txt"}, Deps: []string{"A"}, NCmd: 1}, {Name: "C", Lits: []string{"b.txt"}, Globs: []string{"g*.txt"}, Deps: []string{"B"}, NCmd: 1}}, Files: []string{"a.txt", "b.txt", "g.txt"}},
	{Name: "generator-behind-a-grouping-task", Tasks: []htask{{Name: "A", Lits: []string{"a.txt"}, NCmd: 1, Copies: [][2]string{{"a.txt", "g.txt"}}}, {Name: "B", Lits: []string{"b.txt"}, Deps: []string{"A"}, NCmd: 0}, {Name: "C", Lits: []string{"b.txt"}, Globs: []string{"g*.txt"}, Deps: []string{"B"}, NCmd: 1}}, Files: []string{"a.txt", "b.txt", "g.txt"}},
	{Name: "dependency-with-glob-and-literal", Tasks: []htask{{Name: "A", Lits: []string{"a.txt"}, Globs: []string{"s*.txt"}, NCmd: 1}, {Name: "B", Lits: []string{"b.txt"}, Deps: []string{"A"}, NCmd: 1}}, Files: []string{"a.txt", "b.txt", "s.txt"}},
	{Name: "generated-input", Tasks: []htask{{Name: "A", Lits: []string{"a.txt"}, NCmd: 1, Copies: [][2]string{{"a.txt", "g.txt"}}}, {Name: "B", Lits: []string{"g.txt"}, Deps: []string{"A"}, NCmd: 1}}, Files: []string{"a.txt", "g.txt"}},
	{Name: "chain-of-three", Tasks: []htask{{Name: "A", Lits: []string{"a.txt"}, NCmd: 1}, {Name: "B", Lits: []string{"b.txt"}, Deps: []string{"A"}, NCmd: 1}, {Name: "C", Deps: []string{"B"}, NCmd: 1}}, Files: []string{"a.txt", "b.txt"}},
}

// tagOf is the ASCII alias of a task name used in command text (log lines, flag files): command
// text must be ASCII, task names need not be.
func tagOf(name string) string {
	for _, r := range name {
		if r > 127 {
			return fmt.Sprintf("T%x", name)
		}
	}
	return name
}

// flagOf turns "Task.i" into the flag-file suffix.
func flagOf(spec string) string {
	i := strings.LastIndex(spec, ".")
	if i < 0 {
		return tagOf(spec)
	}
	return tagOf(spec[:i]) + spec[i:]
}

// sandbox is one project directory with the side-effect log and flag directory next to it.
type sandbox struct {
	Root  string // sandbox root
	Home  string // $HOME for binary runs (stop directory)
	Proj  string // project directory (holds the spokfile)
	Log   string // side-effect log (outside the project so that no glob can see it)
	Flags string // directory of fail flags

	nBinary  int // binary invocations so far (selects the ambient environment variant)
	fixedEnv int // > 0: that variant for every binary invocation
}

func newSandbox(root string) *sandbox {
	sb := &sandbox{Root: root, Home: filepath.Join(root, "home"), Proj: filepath.Join(root, "home", "proj"),
		Log: filepath.Join(root, "log"), Flags: filepath.Join(root, "flags")}
	_ = os.MkdirAll(sb.Proj, 0o755)
	_ = os.MkdirAll(sb.Flags, 0o755)
	return sb
}

// spokfileText renders the shape. Every command has the form
//
//	printf T.i.start >> LOG && test ! -e FLAGS/kill.T.i || kill -9 $$ && test ! -e FLAGS/fail.T.i && printf T.i.ok >> LOG
//
// so T.i.ok is written iff that command exited 0; the kill flag (only ever set for
// runs of the binary) makes the command kill spok itself: the shell is in-process, $$ is spok.
func (sb *sandbox) spokfileText(s hshape) string {
	var b strings.Builder
	if s.Stamp {
		// the command text differs on every invocation; the declared inputs do not
		b.WriteString("STAMP := exec(\"date +%s%N\")\n\n")
	}
	for _, t := range s.Tasks {
		var deps []string
		for _, d := range t.Deps {
			deps = append(deps, d)
		}
		for _, l := range t.Lits {
			deps = append(deps, `"`+l+`"`)
		}
		for _, g := range t.Globs {
			deps = append(deps, `"`+g+`"`)
		}
		outs := ""
		if len(t.Outs) == 1 {
			outs = " -> \"" + t.Outs[0] + "\""
		} else if len(t.Outs) > 1 {
			outs = " -> (\"" + strings.Join(t.Outs, "\", \"") + "\")"
		}
		fmt.Fprintf(&b, "task %s(%s)%s {\n", t.Name, strings.Join(deps, ", "), outs)
		for i := 0; i < t.NCmd; i++ {
			work := ""
			if t.CmdTag != "" {
				work += " && : " + t.CmdTag
			}
			if i == 0 && s.Stamp {
				work += " && test -n '{{.STAMP}}'"
			}
			if i == 0 {
				for _, cp := range t.Copies {
					work += fmt.Sprintf(" && cp %s %s", filepath.Join(sb.Proj, cp[0]), filepath.Join(sb.Proj, cp[1]))
				}
			}
			fmt.Fprintf(&b, "    printf '%%s\\n' %s.%d.start >> %s && test ! -e %s/kill.%s.%d || kill -\"$(cat %s/kill.%s.%d)\" $$ && test ! -e %s/fail.%s.%d%s && printf '%%s\\n' %s.%d.ok >> %s\n",
				tagOf(t.Name), i, sb.Log, sb.Flags, tagOf(t.Name), i, sb.Flags, tagOf(t.Name), i, sb.Flags, tagOf(t.Name), i, work, tagOf(t.Name), i, sb.Log)
		}
		b.WriteString("}\n\n")
	}
	return b.String()
}

// ---------------------------------------------------------------------------
// States and operations

type hstate struct {
	Files    map[string]string `json:"files"`            // rel path -> content (absent = no key)
	Cache    *string           `json:"cache"`            // bytes of .spok/cache.json; nil = no .spok directory
	Model    map[string]string `json:"model"`            // task -> snapshot of its last success ("" / missing = none)
	LastFail map[string]string `json:"last_fail"`        // task -> set when it failed on the inputs of its last success (since that success)
	Forced   map[string]string `json:"forced,omitempty"` // task -> set once it took part in a forced run (since the cache was last removed)
	Modes    map[string]string `json:"modes,omitempty"`  // rel path -> "755" for files made executable (default 644)
	Extra    map[string]string `json:"extra,omitempty"`  // any other file found in the project (e.g. further files in .spok): carried along
	Other    string            `json:"other,omitempty"`  // the spokfile changed / not a regular file: never expected
	Decl     map[string]string `json:"decl,omitempty"`   // task -> its file-dependency declaration at its last success (histories that edit the spokfile)
}

func newState() hstate {
	return hstate{Files: map[string]string{}, Model: map[string]string{}, LastFail: map[string]string{}, Forced: map[string]string{}, Extra: map[string]string{}, Modes: map[string]string{}, Decl: map[string]string{}}
}

func (s hstate) clone() hstate {
	n := newState()
	for k, v := range s.Files {
		n.Files[k] = v
	}
	for k, v := range s.Model {
		n.Model[k] = v
	}
	for k, v := range s.LastFail {
		n.LastFail[k] = v
	}
	for k, v := range s.Forced {
		n.Forced[k] = v
	}
	for k, v := range s.Extra {
		n.Extra[k] = v
	}
	for k, v := range s.Modes {
		n.Modes[k] = v
	}
	for k, v := range s.Decl {
		n.Decl[k] = v
	}
	if s.Cache != nil {
		c := *s.Cache
		n.Cache = &c
	}
	n.Other = s.Other
	return n
}

func mapKey(m map[string]string) string {
	var ks []string
	for k, v := range m {
		if v != "" || true {
			ks = append(ks, k+"="+v)
		}
	}
	sort.Strings(ks)
	return strings.Join(ks, ";")
}

func dropEmpty(m map[string]string) map[string]string {
	o := map[string]string{}
	for k, v := range m {
		if v != "" {
			o[k] = v
		}
	}
	return o
}

func (s hstate) key() string {
	c := "<none>"
	if s.Cache != nil {
		c = *s.Cache
	}
	return "F{" + mapKey(s.Files) + "}C{" + c + "}M{" + mapKey(dropEmpty(s.Model)) + "}L{" + mapKey(dropEmpty(s.LastFail)) + "}X{" + mapKey(dropEmpty(s.Forced)) + "}E{" + mapKey(s.Extra) + "}P{" + mapKey(s.Modes) + "}O{" + s.Other + "}"
}

// diskKey identifies what is on disk only (for counting distinct disk states).
func (s hstate) diskKey() string {
	c := "<none>"
	if s.Cache != nil {
		c = *s.Cache
	}
	return "F{" + mapKey(s.Files) + "}C{" + c + "}E{" + mapKey(s.Extra) + "}P{" + mapKey(s.Modes) + "}"
}

type hop struct {
	Kind  string   `json:"kind"` // write | delete | rmcache | run
	File  string   `json:"file,omitempty"`
	Value string   `json:"value,omitempty"`
	Tasks []string `json:"tasks,omitempty"`
	Force bool     `json:"force,omitempty"`
	Fail  string   `json:"fail,omitempty"`      // "T.i": command i of task T fails in this invocation
	Clean bool     `json:"via_clean,omitempty"` // binary only: `spok --clean` (Tasks = ["clean"], a user-defined task that is run like any other)
}

func (o hop) String() string {
	if o.Kind == "run" && o.Clean {
		if o.Force {
			return "spok --clean --force"
		}
		return "spok --clean"
	}
	switch o.Kind {
	case "write":
		return fmt.Sprintf("write %s=%s", o.File, o.Value)
	case "delete":
		return "delete " + o.File
	case "rmcache":
		return "rm -rf .spok"
	case "rmcachefile":
		return "rm .spok/cache.json"
	case "tamper":
		return "overwrite every digest in .spok/cache.json with the word DIFFERENT"
	case "rmtag":
		return "rm .spok/CACHEDIR.TAG .spok/.gitignore"
	case "chmod":
		return "chmod (toggle +x) " + o.File
	case "link":
		return fmt.Sprintf("ln -sf %s %s", o.Value, o.File)
	case "spokfile":
		return "edit the spokfile to version " + o.Value
	}
	s := "spok"
	if o.Force {
		s += " --force"
	}
	s += " " + strings.Join(o.Tasks, " ")
	if o.Fail != "" {
		s += " [command " + o.Fail + " fails]"
	}
	return s
}

// materialise makes the project directory hold exactly the state.
func (sb *sandbox) materialise(s hshape, st hstate) {
	entries, _ := os.ReadDir(sb.Proj)
	for _, e := range entries {
		_ = os.RemoveAll(filepath.Join(sb.Proj, e.Name()))
	}
	_ = os.WriteFile(filepath.Join(sb.Proj, "spokfile"), []byte(sb.spokfileText(s)), 0o644)
	// every project has a .env next to the spokfile (hidden: no glob sees it, no task names it)
	_ = os.WriteFile(filepath.Join(sb.Proj, ".env"), []byte("FROM_DOTENV=1\n"), 0o644)
	for p, c := range st.Files {
		full := filepath.Join(sb.Proj, p)
		_ = os.MkdirAll(filepath.Dir(full), 0o755)
		if strings.HasPrefix(c, "@->") {
			_ = os.Symlink(strings.TrimPrefix(c, "@->"), full)
			continue
		}
		_ = os.WriteFile(full, []byte(c), 0o644)
		if st.Modes[p] == "755" {
			_ = os.Chmod(full, 0o755)
		}
	}
	for p, c := range st.Extra {
		full := filepath.Join(sb.Proj, p)
		if strings.HasSuffix(p, "/") {
			_ = os.MkdirAll(full, 0o755)
			continue
		}
		_ = os.MkdirAll(filepath.Dir(full), 0o755)
		_ = os.WriteFile(full, []byte(c), 0o644)
	}
	if st.Cache != nil {
		d := filepath.Join(sb.Proj, ".spok")
		_ = os.MkdirAll(d, 0o755)
		_ = os.WriteFile(filepath.Join(d, "cache.json"), []byte(*st.Cache), 0o666)
		_ = os.WriteFile(filepath.Join(d, ".gitignore"), []byte("*\n"), 0o666)
		_ = os.WriteFile(filepath.Join(d, "CACHEDIR.TAG"), []byte("Signature: 8a477f597d28d172789f06886806bc55"), 0o666)
	}
}

// applyOnDisk performs one edit operation on the project directory as it stands.
func (sb *sandbox) applyOnDisk(op hop) {
	full := filepath.Join(sb.Proj, op.File)
	switch op.Kind {
	case "write":
		_ = os.MkdirAll(filepath.Dir(full), 0o755)
		var keep *time.Time
		if fi, err := os.Lstat(full); err == nil && fi.Mode().IsRegular() && fi.Size() == int64(len(op.Value)) && core.Hash64(op.String())%2 == 0 {
			// the new content has the size of the old one: every second such edit also keeps the
			// modification time (cp -p, rsync -t, files unpacked from one archive)
			t := fi.ModTime()
			keep = &t
		}
		_ = os.Remove(full) // (a symlink is replaced, not written through)
		_ = os.WriteFile(full, []byte(op.Value), 0o644)
		if keep != nil {
			_ = os.Chtimes(full, *keep, *keep)
		}
	case "delete":
		_ = os.Remove(full)
	case "link":
		_ = os.MkdirAll(filepath.Dir(full), 0o755)
		_ = os.Remove(full)
		_ = os.Symlink(op.Value, full)
	case "chmod":
		if fi, err := os.Lstat(full); err == nil && fi.Mode().IsRegular() {
			if fi.Mode().Perm()&0o100 != 0 {
				_ = os.Chmod(full, 0o644)
			} else {
				_ = os.Chmod(full, 0o755)
			}
		}
	case "rmcache":
		_ = os.RemoveAll(filepath.Join(sb.Proj, ".spok"))
	case "rmcachefile":
		_ = os.Remove(filepath.Join(sb.Proj, ".spok", "cache.json"))
	case "tamper":
		p := filepath.Join(sb.Proj, ".spok", "cache.json")
		if b, err := os.ReadFile(p); err == nil {
			_ = os.WriteFile(p, []byte(tamperCache(string(b))), 0o644)
		}
	case "rmtag":
		_ = os.Remove(filepath.Join(sb.Proj, ".spok", "CACHEDIR.TAG"))
		_ = os.Remove(filepath.Join(sb.Proj, ".spok", ".gitignore"))
	}
}

// tamperCache replaces every recorded digest by a word that is not a digest (what a cache written by
// another version, or edited by hand, may hold): valid JSON, and nothing any task is up to date with.
func tamperCache(c string) string {
	var m map[string]string
	if json.Unmarshal([]byte(c), &m) != nil {
		return c
	}
	for k, v := range m {
		if v != "" {
			m[k] = "DIFFERENT"
		}
	}
	b, _ := json.Marshal(m)
	return string(b)
}

// readBack reads files and cache from the project directory into st.
func (sb *sandbox) readBack(s hshape, st *hstate) {
	st.Files = map[string]string{}
	st.Modes = map[string]string{}
	st.Extra = map[string]string{}
	st.Cache = nil
	st.Other = ""
	known := map[string]bool{}
	for _, f := range s.Files {
		known[f] = true
	}
	var other []string
	_ = filepath.Walk(sb.Proj, func(p string, info os.FileInfo, err error) error {
		if err != nil || p == sb.Proj {
			return nil
		}
		rel, _ := filepath.Rel(sb.Proj, p)
		switch {
		case rel == "spokfile":
			if b, _ := os.ReadFile(p); string(b) != sb.spokfileText(s) {
				other = append(other, "spokfile-changed")
			}
		case rel == ".spok" || rel == ".spok/.gitignore" || rel == ".spok/CACHEDIR.TAG" || rel == ".env":
		case rel == ".spok/cache.json":
			b, _ := os.ReadFile(p)
			c := string(b)
			st.Cache = &c
		case info.IsDir():
		case info.Mode()&os.ModeSymlink != 0 && known[rel]:
			target, _ := os.Readlink(p)
			st.Files[rel] = "@->" + target
		case info.Mode().IsRegular() && known[rel]:
			b, _ := os.ReadFile(p)
			st.Files[rel] = string(b)
			if info.Mode().Perm()&0o100 != 0 {
				st.Modes[rel] = "755"
			}
		case info.Mode().IsRegular():
			// anything else spok (or a variant of it) leaves in the project is part of the state
			b, _ := os.ReadFile(p)
			st.Extra[rel] = string(b)
		default:
			other = append(other, rel+":not-a-regular-file")
		}
		return nil
	})
	if st.Cache == nil {
		if _, err := os.Stat(filepath.Join(sb.Proj, ".spok")); err == nil {
			st.Extra[".spok/"] = "" // the directory exists without a cache file (a killed initialisation)
		}
	}
	sort.Strings(other)
	st.Other = strings.Join(other, ",")
}

// snapshot is the reference input set of a task in a file state: the literal
// dependencies that are regular files plus the reference denotation of each glob.
// resolve follows symbolic links of the model: what reading the path gives, and whether it can be read.
func resolve(files map[string]string, p string) (string, bool) {
	for i := 0; i < 8; i++ {
		c, ok := files[p]
		if !ok {
			return "", false
		}
		if !strings.HasPrefix(c, "@->") {
			return c, true
		}
		p = filepath.Join(filepath.Dir(p), strings.TrimPrefix(c, "@->"))
	}
	return "", false
}

func snapshot(t *htask, files map[string]string) string {
	set := map[string]string{}
	for _, l := range t.Lits {
		if c, ok := resolve(files, l); ok {
			set[l] = c
		}
	}
	// the spokfile is a file of the project too (constant within a history unless the history edits it:
	// judgeRun then passes the version along under a hidden key)
	withSpokfile := map[string]string{"spokfile": "<the spokfile" + files[spokfileVersionKey] + ">"}
	for p, c := range files {
		withSpokfile[p] = c
	}
	for _, g := range t.Globs {
		for p := range withSpokfile {
			if strings.HasPrefix(p, ".") {
				continue
			}
			if ref.Match(g, p) {
				if c, ok := resolve(withSpokfile, p); ok {
					set[p] = c
				} else {
					set[p] = "<unreadable>" // a dangling link matched by a glob: spok stops with an error
				}
			}
		}
	}
	if len(set) == 0 {
		return noFiles
	}
	return mapKey(set)
}

// spokfileVersionKey is a hidden (never glob-matched) key of the file map that carries the version of the spokfile.
const spokfileVersionKey = ".spokfile-version"

// spokVer identifies the text of a shape's spokfile.
func spokVer(s hshape) string {
	b, _ := json.Marshal(s.Tasks)
	return fmt.Sprintf(" %x", core.Hash64(string(b)))
}

// unknownModel stands for "this command-less task may or may not have been recorded by a run that stopped with an error".
const unknownModel = "<unknown>"

// noFiles is the snapshot of a task none of whose dependencies denotes a file ("" = no snapshot at all).
const noFiles = "<no files>"

// missingLiteral reports whether a literal dependency of the task does not exist
// (spok then stops with an error when it reaches the task).
func missingLiteral(t *htask, files map[string]string) bool {
	for _, l := range t.Lits {
		if _, ok := resolve(files, l); !ok {
			return true
		}
	}
	for _, g := range t.Globs {
		for p := range files {
			if !strings.HasPrefix(p, ".") && ref.Match(g, p) {
				if _, ok := resolve(files, p); !ok {
					return true
				}
			}
		}
	}
	return false
}

func (s hshape) closure(req []string) []string {
	if len(req) == 0 {
		req = []string{"default"} // spok without task names runs the task named default
	}
	seen := map[string]bool{}
	var order []string
	var visit func(n string)
	visit = func(n string) {
		if seen[n] {
			return
		}
		seen[n] = true
		if t := s.task(n); t != nil {
			for _, d := range t.Deps {
				visit(d)
			}
		}
		order = append(order, n)
	}
	for _, r := range req {
		visit(r)
	}
	return order
}

// ---------------------------------------------------------------------------
// Observation of one invocation

type hobs struct {
	Op        hop             `json:"op"`
	Via       string          `json:"via"`                // inproc | binary
	Err       string          `json:"error,omitempty"`    // Run error / non-zero exit message
	Exit      int             `json:"exit"`               // binary only
	Killed    bool            `json:"killed,omitempty"`   // the invocation was killed (C10)
	Reported  map[string]bool `json:"reported,omitempty"` // task -> skipped flag as reported
	HaveRep   bool            `json:"have_report"`        // whether a per-task report exists
	Log       []string        `json:"log"`                // side-effect log of this invocation
	Decisions []string        `json:"decisions,omitempty"`
}

func (o hobs) executed(task string) bool {
	for _, l := range o.Log {
		if strings.HasPrefix(l, tagOf(task)+".") {
			return true
		}
	}
	return false
}

func (o hobs) succeeded(t *htask) bool {
	have := map[string]bool{}
	for _, l := range o.Log {
		have[l] = true
	}
	for i := 0; i < t.NCmd; i++ {
		if !have[fmt.Sprintf("%s.%d.ok", tagOf(t.Name), i)] {
			return false
		}
	}
	return true
}

func (sb *sandbox) setFail(fails string, on bool) {
	for _, fail := range strings.Split(fails, ",") {
		if fail == "" {
			continue
		}
		p := filepath.Join(sb.Flags, "fail."+flagOf(fail))
		if on {
			_ = os.WriteFile(p, nil, 0o644)
		} else {
			_ = os.Remove(p)
		}
	}
}

func (sb *sandbox) readLog() []string {
	b, _ := os.ReadFile(sb.Log)
	return strings.Fields(string(b))
}

// runInproc executes a run operation with the real packages in this process.
func (sb *sandbox) runInproc(s hshape, op hop) hobs {
	o := hobs{Op: op, Via: "inproc", Reported: map[string]bool{}}
	_ = os.Remove(sb.Log)
	sb.setFail(op.Fail, true)
	defer sb.setFail(op.Fail, false)
	var decisions []string
	verifhook.SetHandler(func(name string, args []string) {
		if name == "run.decide" && len(args) >= 6 {
			class := "different"
			if args[1] == "" {
				class = "empty"
			} else if args[1] == args[2] {
				class = "equal"
			}
			nf := "files"
			if args[4] == "0" {
				nf = "nofiles"
			}
			decisions = append(decisions, fmt.Sprintf("cached=%s force=%s %s skipped=%s", class, args[3], nf, args[5]))
		}
	})
	defer verifhook.SetHandler(nil)
	text, err := os.ReadFile(filepath.Join(sb.Proj, "spokfile"))
	if err != nil {
		o.Err = err.Error()
		return o
	}
	tree, err := parser.New(string(text)).Parse()
	if err != nil {
		o.Err = "parse: " + err.Error()
		return o
	}
	sf, err := file.New(tree, sb.Proj, nullLogger{})
	if err != nil {
		o.Err = "load: " + err.Error()
		return o
	}
	results, err := sf.Run(iostream.Null(), shell.NewIntegratedRunner(), op.Force, op.Tasks...)
	o.Log = sb.readLog()
	o.Decisions = decisions
	if err != nil {
		o.Err = err.Error()
		return o
	}
	o.HaveRep = true
	for _, r := range results {
		o.Reported[r.Task] = r.Skipped
	}
	if !results.Ok() {
		o.Exit = 1
	}
	return o
}

// runBinary executes a run operation through the spok binary.
func (sb *sandbox) runBinary(bin string, s hshape, op hop, extraEnv []string) hobs {
	o := hobs{Op: op, Via: "binary", Reported: map[string]bool{}}
	_ = os.Remove(sb.Log)
	sb.setFail(op.Fail, true)
	defer sb.setFail(op.Fail, false)
	args := []string{"--json"}
	if op.Force {
		args = append(args, "--force")
	}
	if op.Clean {
		args = append(args, "--clean")
	} else {
		args = append(args, op.Tasks...)
	}
	// every other binary run finds variables in its environment that a tool might give a meaning to
	sb.nBinary++
	variant := sb.nBinary
	if sb.fixedEnv > 0 {
		variant = sb.fixedEnv
	}
	env := append(append([]string{}, extraEnv...), core.HostileEnv(variant, sb.Home)...)
	inv := core.RunSpok(core.SpokOpts{Bin: bin, Dir: sb.Proj, Home: sb.Home, Args: args, Env: env})
	o.Log = sb.readLog()
	o.Exit = inv.Exit
	if inv.Signal != "" {
		o.Killed = true
	}
	if inv.Exit != 0 {
		o.Err = strings.TrimSpace(inv.Stderr)
		if o.Err == "" {
			o.Err = fmt.Sprintf("exit %d", inv.Exit)
		}
		if inv.Race || (inv.Crashed() && !o.Killed) {
			o.Err = "CRASH: " + o.Err
		}
		return o
	}
	var jr []jsonResult
	if err := json.Unmarshal([]byte(strings.TrimSpace(inv.Stdout)), &jr); err != nil {
		// exit 0 without a readable report (that is C20's business): the run is judged by what the
		// side-effect log shows to have run
		return o
	}
	o.HaveRep = true
	for _, r := range jr {
		o.Reported[r.Task] = r.Skipped
	}
	return o
}

// ---------------------------------------------------------------------------
// The monitor: judges one invocation against the model and updates the model.

type hverdict struct {
	Violations []core.Violation
	Skips      int // skips observed (reported or silent)
	Reruns     int // executions observed
	DemSkips   int // skips demanded by C02
	MultiSkip  bool
	ForcedUp   bool // a forced run hit an up-to-date task
}

// judgeRun checks the invocation o, executed in state pre (files and model before
// the invocation), and updates model/lastFail in st. strictC02 is false after a
// crash (C10): then only the C01 clause is demanded.
func judgeRun(s hshape, pre hstate, o hobs, st *hstate, c02 c02mode) hverdict {
	var v hverdict
	bad := func(prop, clause, format string, args ...any) {
		v.Violations = append(v.Violations, core.Violation{Property: prop, Clause: clause, Detail: fmt.Sprintf(format, args...)})
	}
	closure := s.closure(o.Op.Tasks)
	errored := o.Err != "" && !o.HaveRep
	// the files as each task finds them when its turn comes: a task may generate a file
	// that a task depending on it names as input
	cur := map[string]string{}
	for k, val := range pre.Files {
		cur[k] = val
	}
	// a glob that matches the spokfile sees which version of it this is (histories may edit it)
	cur[spokfileVersionKey] = spokVer(s)
	logged := map[string]bool{}
	for _, l := range o.Log {
		logged[l] = true
	}
	for _, name := range closure {
		t := s.task(name)
		if t == nil {
			continue
		}
		snap := snapshot(t, cur)
		missing := missingLiteral(t, cur)
		if logged[tagOf(name)+".0.ok"] {
			for _, cp := range t.Copies {
				if c, ok := cur[cp[0]]; ok {
					cur[cp[1]] = c
				}
			}
		}
		last := pre.Model[name]
		exec := o.executed(name)
		rep, haveRep := o.Reported[name]
		if t.NCmd == 0 {
			// a task without commands leaves no trace in the side-effect log: whether it was run or
			// skipped is only known from the report, and without one it is not judged
			if !haveRep {
				// (it may have been reached and recorded before the run stopped: from here on what it
				// last succeeded on is not known until it is seen to run again)
				if o.Exit != 0 || errored || o.Killed {
					st.Model[name] = unknownModel
				}
				continue
			}
			exec = !rep
		}
		reached := haveRep || exec
		if !reached {
			if errored && !o.Killed && o.Op.Fail == "" && len(o.Log) == 0 && !strings.HasPrefix(o.Err, "CRASH:") {
				// spok gave up before running anything, in an invocation in which nothing is set up to fail.
				// Where the model demands a skip that is a violation of C02 (an error is not "skipped")
				// unless an input of some task of the closure cannot be read
				strict := c02 == c02All || (c02 == c02SameDecl && pre.Decl[name] == declOf(t))
				readable := true
				for _, n2 := range o.Op.Tasks {
					if s.task(n2) == nil {
						readable = false // an undefined task was asked for: the error is the right answer
					}
				}
				for _, n2 := range closure {
					if t2 := s.task(n2); t2 != nil && (missingLiteral(t2, cur) || strings.Contains(snapshot(t2, cur), "<unreadable>")) {
						readable = false
					}
				}
				if readable && o.Op.Force {
					bad("C14", "force-runs-everything", "a forced run in which nothing is set up to fail stopped with an error before running anything (task %s never started): %s", name, core.Trunc(o.Err, 300))
				}
				if strict && readable && !o.Op.Force && snap != noFiles && last == snap && pre.LastFail[name] == "" {
					bad("C02", "unchanged-task-skipped", "task %s is up to date (inputs {%s} are those of its last success) but spok stopped with an error instead of skipping it: %s", name, snap, core.Trunc(o.Err, 300))
				}
			}
			if errored || o.Killed || o.Exit != 0 {
				continue // spok stopped before this task: nothing to judge
			}
		}
		skippedNow := (haveRep && rep) || (!exec && reached) || (!exec && !errored && !o.Killed && o.Exit == 0)
		if haveRep && rep && exec {
			bad("C01", "skipped-task-ran-nothing", "task %s is reported skipped but its commands ran: %v", name, o.Log)
		}
		if haveRep && !rep && !exec && t.NCmd > 0 {
			bad("C20", "not-skipped-but-nothing-ran", "task %s is reported as run but none of its commands ran", name)
		}
		// C01: a skip requires the inputs of the last success
		if skippedNow {
			v.Skips++
			if last == unknownModel {
				// not judged: see above
			} else if last == "" {
				bad("C01", "skip-needs-earlier-success", "task %s was skipped but has not completed successfully since the cache was last removed (inputs now {%s})", name, snap)
			} else if last != snap {
				bad("C01", "skip-needs-equal-inputs", "task %s was skipped but its inputs {%s} differ from those of its last success {%s}", name, snap, last)
			}
			if last != unknownModel && (last == "" || last != snap) && pre.Forced[name] != "" && !o.Op.Force {
				bad("C14", "forced-run-does-not-damage-cache", "task %s took part in a forced run earlier and is now skipped although its inputs {%s} differ from those of its last successful run {%s}", name, snap, last)
			}
			if o.Op.Force {
				bad("C14", "force-runs-everything", "task %s was skipped in a forced run", name)
			}
		} else if exec {
			v.Reruns++
		}
		// C14: forced => executed
		if o.Op.Force && reached && !exec && t.NCmd > 0 {
			bad("C14", "force-runs-everything", "task %s ran none of its commands in a forced run", name)
		}
		if o.Op.Force && last != "" && last == snap && exec {
			v.ForcedUp = true
		}
		// C02: unchanged since the last success => skipped; tasks without files always run
		strictC02 := c02 == c02All || (c02 == c02SameDecl && pre.Decl[name] == declOf(t))
		if strictC02 && !o.Op.Force && reached {
			hasFiles := snap != noFiles
			// undecided corner (C02 vs C09): since its last success the task has failed on exactly
			// those inputs (only a forced run can do that); spok then no longer treats it as up to date
			corner := pre.LastFail[name] != ""
			switch {
			case hasFiles && last == snap && !corner && !missing:
				v.DemSkips++
				if len(closure) > 1 {
					v.MultiSkip = true
				}
				if exec {
					bad("C02", "unchanged-task-skipped", "task %s ran although its inputs {%s} are those of its last success, the cache was not removed and --force was not given", name, snap)
				} else if haveRep && !rep {
					bad("C02", "unchanged-task-reported-skipped", "task %s ran nothing but is not reported skipped", name)
				}
			case !hasFiles && len(t.Lits) == 0 && len(t.Globs) == 0:
				// (a task that declares globs which currently match no file is covered by neither sentence
				// of the statement: only tasks without any file dependency are demanded to run always)
				if !exec && t.NCmd > 0 {
					bad("C02", "no-file-task-always-runs", "task %s has no file dependency that matches a file but was not run", name)
				}
			}
		}
		if o.Op.Force && reached {
			st.Forced[name] = "forced"
		}
		// model update from the side-effect log (ground truth)
		if exec {
			if o.succeeded(t) {
				st.Model[name] = snap
				st.LastFail[name] = ""
				if st.Decl != nil {
					st.Decl[name] = declOf(t)
				}
			} else if last != "" && snap == last {
				st.LastFail[name] = "failed on the inputs of its last success"
			}
		}
	}
	return v
}

// applyEdit applies a non-run operation to a state (no spok involved).
func applyEdit(st *hstate, op hop) {
	switch op.Kind {
	case "delete":
		delete(st.Files, op.File)
		delete(st.Modes, op.File)
	case "link":
		st.Files[op.File] = "@->" + op.Value
	case "chmod":
		if _, ok := st.Files[op.File]; ok {
			if st.Modes[op.File] == "755" {
				delete(st.Modes, op.File)
			} else {
				st.Modes[op.File] = "755"
			}
		}
	case "write":
		st.Files[op.File] = op.Value
		delete(st.Modes, op.File) // (re)written files are plain 644 files
	case "tamper":
		// the records are gone as far as any task is concerned, the file is still there
		if st.Cache != nil {
			c := tamperCache(*st.Cache)
			st.Cache = &c
		}
		st.Model = map[string]string{}
		st.LastFail = map[string]string{}
		st.Forced = map[string]string{}
	case "rmtag":
		// (only in-place histories see this: the other files of .spok are re-created with the cache otherwise)
	case "rmcachefile":
		// only the cache file goes, the directory stays: the cache has been removed all the same
		if st.Cache != nil {
			st.Cache = nil
			st.Extra[".spok/.gitignore"] = "*\n"
			st.Extra[".spok/CACHEDIR.TAG"] = "Signature: 8a477f597d28d172789f06886806bc55"
		}
		st.Model = map[string]string{}
		st.LastFail = map[string]string{}
		st.Forced = map[string]string{}
	case "rmcache":
		st.Cache = nil
		for k := range st.Extra {
			if strings.HasPrefix(k, ".spok/") {
				delete(st.Extra, k)
			}
		}
		st.Model = map[string]string{}
		st.LastFail = map[string]string{}
		st.Forced = map[string]string{}
	}
}

// editOps lists the edit operations of a shape over the given values.
func editOps(s hshape, values []string) []hop {
	var ops []hop
	for _, f := range s.Files {
		for _, v := range values {
			ops = append(ops, hop{Kind: "write", File: f, Value: v})
		}
		ops = append(ops, hop{Kind: "delete", File: f})
	}
	ops = append(ops, hop{Kind: "rmcache"}, hop{Kind: "rmcachefile"}, hop{Kind: "tamper"})
	if len(s.Files) > 0 && len(s.Tasks) <= 2 && len(s.Files) <= 2 {
		ops = append(ops, hop{Kind: "chmod", File: s.Files[0]}) // permissions are not part of a task's inputs
	}
	for _, l := range s.Links {
		ops = append(ops, hop{Kind: "link", File: l[0], Value: l[1]})
	}
	return ops
}

// runOps lists the run operations of a shape: every non-empty task subset, plain
// and forced, without failure and with the first command of one closure task failing.
func runOps(s hshape, withFail bool) []hop {
	var ops []hop
	n := len(s.Tasks)
	for mask := 1; mask < 1<<uint(n); mask++ {
		var req []string
		for i := 0; i < n; i++ {
			if mask&(1<<uint(i)) != 0 {
				req = append(req, s.Tasks[i].Name)
			}
		}
		for _, force := range []bool{false, true} {
			if mask == 1 && s.task("default") != nil {
				ops = append(ops, hop{Kind: "run", Force: force}) // no task names: the default task (CLI layer only)
			}
			ops = append(ops, hop{Kind: "run", Tasks: req, Force: force})
			if withFail {
				for _, name := range s.closure(req) {
					ops = append(ops, hop{Kind: "run", Tasks: req, Force: force, Fail: name + ".0"})
				}
			}
		}
	}
	return ops
}
