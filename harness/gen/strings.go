package gen

import (
	"go/ast"
	"go/parser"
	"go/token"
	"os"
	"path/filepath"
	"strconv"
	"strings"

	"verif/harness/core"
)

// AlphabetA: 25 symbols, some composite so that short strings reach whole statements.
var AlphabetA = []string{
	"task t(", ") {", "}", "\"s\"", "X := ", "X", "# c", "#", " ", "\n", "\r\n", ",",
	"-> ", "(", ")", "cmd", "{{.X}}", "task", "é", "\t", "\"", "x", "1", "\x80", "{",
}

// AlphabetB: single lexer classes plus two composites.
var AlphabetB = []string{
	"a", "task", " ", "\n", "\r\n", "\t", "#", "(", ")", "{", "}", "\"", ",", ":=", "->", "{{", "}}", "_", "é",
	"1", ".", "\x80", "\r", "task t() {", "X := \"s\"\n",
}

// AlphabetC: statement-level composites (14 symbols) so that short strings reach
// several statements on one or two lines.
var AlphabetC = []string{
	"X := \"s\"", "task", " ", "\n", "X", " := ", "\"s\"", "# c", "#", "task t() {", "}", "cmd", "\r\n", "tasks",
}

// Alphabet returns a class alphabet by block kind.
func Alphabet(kind string) []string {
	switch kind {
	case "classB":
		return AlphabetB
	case "classC":
		return AlphabetC
	}
	return AlphabetA
}

// Pow returns base^exp.
func Pow(base, exp int) int64 {
	r := int64(1)
	for i := 0; i < exp; i++ {
		r *= int64(base)
	}
	return r
}

// decomposable lists, per alphabet, the symbol runs that spell a composite symbol of the same
// alphabet: a sequence containing such a run denotes the same string as a shorter sequence.
var decomposable = map[string][][]string{
	"classA": {{")", " ", "{"}},
	"classB": {{"{", "{"}, {"}", "}"}, {"\r", "\n"}},
	"classC": {{"X", " := ", "\"s\""}},
}

// ClassCanonical reports whether the idx-th sequence of n symbols is the canonical (shortest)
// spelling of its string within the alphabet, i.e. contains no decomposable run. Strings counted
// only at their canonical spelling are pairwise distinct within one alphabet.
func ClassCanonical(kind string, alpha []string, n int, idx int64) bool {
	k := int64(len(alpha))
	var syms [16]string
	for i := n - 1; i >= 0; i-- {
		syms[i] = alpha[idx%k]
		idx /= k
	}
	for _, run := range decomposable[kind] {
		for i := 0; i+len(run) <= n; i++ {
			match := true
			for j := range run {
				if syms[i+j] != run[j] {
					match = false
					break
				}
			}
			if match {
				return false
			}
		}
	}
	return true
}

// ClassString builds the idx-th string of exactly n symbols over the alphabet.
func ClassString(alpha []string, n int, idx int64, buf *strings.Builder) string {
	buf.Reset()
	k := int64(len(alpha))
	// most significant symbol first so that consecutive indices share prefixes
	var digits [16]int
	for i := n - 1; i >= 0; i-- {
		digits[i] = int(idx % k)
		idx /= k
	}
	for i := 0; i < n; i++ {
		buf.WriteString(alpha[digits[i]])
	}
	return buf.String()
}

// ---------------------------------------------------------------------------
// Seeds for the mutator

// RepoDir is where the repository under test lives.
func RepoDir() string {
	if d := os.Getenv("VERIF_REPO"); d != "" {
		return d
	}
	return "/repo"
}

const demoSpokfile = `# This is a spokfile example

VERSION := "0.3.0"

# Run the unit tests
task test("**/*.go") {
    go test ./...
}

# Which version am I
task version() {
    echo {{.VERSION}}
}
`

var builtinSeeds = []string{
	"# c\n#\ntask t() {}\n",
	"X := \"s\"\ntask t(\"a\", b) -> (\"o\", P) {\n    cmd {{.X}}\n    other\n}\n",
	"task t() -> \"out\" { one }\n",
	"A := join(\"a\", \"b\")\n# doc\ntask a(b, \"*.go\") -> OUT {\r\n    go build\r\n}\r\n",
	"# one\n# two\n\n# three\nX := exec(\"git rev-parse HEAD\")\n",
	"task a() {}\ntask b(a) {}\n",
	"#\n#\n# x\n#\ntask t() {\n}\n",
}

// Seeds collects the mutation seeds: the repository's own spokfile, every
// `input:` literal of the lexer and parser tests (extracted from the working
// tree at run time), the demo spokfile and some hand-written shapes.
func Seeds() []string {
	seeds := append([]string{}, builtinSeeds...)
	seeds = append(seeds, demoSpokfile)
	repo := RepoDir()
	if b, err := os.ReadFile(filepath.Join(repo, "spokfile")); err == nil {
		seeds = append(seeds, string(b))
	}
	for _, f := range []string{"lexer/lexer_test.go", "parser/parser_test.go", "file/file_test.go", "ast/ast_test.go"} {
		seeds = append(seeds, inputLiterals(filepath.Join(repo, f))...)
	}
	// dedupe, keep order
	seen := map[string]bool{}
	var out []string
	for _, s := range seeds {
		if !seen[s] && len(s) < 4000 {
			seen[s] = true
			out = append(out, s)
		}
	}
	return out
}

func inputLiterals(path string) []string {
	fset := token.NewFileSet()
	f, err := parser.ParseFile(fset, path, nil, 0)
	if err != nil {
		return nil
	}
	var out []string
	ast.Inspect(f, func(n ast.Node) bool {
		kv, ok := n.(*ast.KeyValueExpr)
		if !ok {
			return true
		}
		id, ok := kv.Key.(*ast.Ident)
		if !ok || (id.Name != "input" && id.Name != "text" && id.Name != "want") {
			return true
		}
		if lit, ok := kv.Value.(*ast.BasicLit); ok && lit.Kind == token.STRING {
			if s, err := strconv.Unquote(lit.Value); err == nil {
				out = append(out, s)
			}
		}
		return true
	})
	return out
}

// ---------------------------------------------------------------------------
// Mutator

var mutPieces = []string{
	"task", "task t(", "task t() {", "}", "{", "(", ")", "\"", "\"s\"", ",", "->", "-> ", ":=", " := ", "#", "# c", "\n", "\r\n",
	"\r", " ", "\t", "{{", "}}", "{{.X}}", "X", "x", "_", "é", "1", ".", "\x80", "\xff", "\x00", "*", "cmd", "\n\n", "#\n", "task ", "tasks",
	") {", "\"\"", "()", "{}", "-", ">", ":", "=", "exec(", "join(", " ", " ", "\v", "\f",
	"\ufeff", "\u200c", "\u200d", "\u00ad", "\u2028", "\u202e", "'", "e\u0301",
}

// mutPrefixes are put in front of a whole input: what editors and tools on other platforms
// leave at the start of a text file.
var mutPrefixes = []string{"\ufeff", "\ufeff\ufeff", "\xef\xbb", "\xff\xfe", "\n", " ", "\r\n", "\u200b", "#!spok\n"}

// Mutator keeps a pool of inputs and derives new ones from it.
type Mutator struct {
	R    *core.Rng
	Pool []string
	max  int
}

func NewMutator(r *core.Rng, seeds []string) *Mutator {
	return &Mutator{R: r, Pool: append([]string{}, seeds...), max: 600}
}

// Feed adds an interesting input (one that parsed) back into the pool.
func (m *Mutator) Feed(s string) {
	if len(s) > 3000 {
		return
	}
	if len(m.Pool) < m.max {
		m.Pool = append(m.Pool, s)
	} else {
		m.Pool[m.R.Intn(len(m.Pool))] = s
	}
}

func (m *Mutator) cut(s string) (int, int) {
	if len(s) == 0 {
		return 0, 0
	}
	i := m.R.Intn(len(s) + 1)
	n := m.R.Intn(8)
	if m.R.Chance(15) {
		n = m.R.Intn(len(s) + 1)
	}
	j := i + n
	if j > len(s) {
		j = len(s)
	}
	return i, j
}

// Next produces one mutant.
func (m *Mutator) Next() string {
	s := core.Pick(m.R, m.Pool)
	n := 1 + m.R.Intn(3)
	for k := 0; k < n; k++ {
		switch m.R.Intn(12) {
		case 0: // insert a piece
			i := m.R.Intn(len(s) + 1)
			s = s[:i] + core.Pick(m.R, mutPieces) + s[i:]
		case 1: // replace a span by a piece
			i, j := m.cut(s)
			s = s[:i] + core.Pick(m.R, mutPieces) + s[j:]
		case 2: // delete a span
			i, j := m.cut(s)
			s = s[:i] + s[j:]
		case 3: // duplicate a line
			lines := strings.SplitAfter(s, "\n")
			i := m.R.Intn(len(lines))
			lines = append(lines[:i+1], lines[i:]...)
			s = strings.Join(lines, "")
		case 4: // join two lines
			if i := strings.IndexByte(s, '\n'); i >= 0 {
				idx := []int{}
				for p := 0; p < len(s); p++ {
					if s[p] == '\n' {
						idx = append(idx, p)
					}
				}
				p := core.Pick(m.R, idx)
				s = s[:p] + s[p+1:]
			}
		case 5: // LF <-> CRLF
			if strings.Contains(s, "\r\n") {
				s = strings.ReplaceAll(s, "\r\n", "\n")
			} else {
				s = strings.ReplaceAll(s, "\n", "\r\n")
			}
		case 6: // splice with another pool entry
			o := core.Pick(m.R, m.Pool)
			i := m.R.Intn(len(s) + 1)
			j := m.R.Intn(len(o) + 1)
			s = s[:i] + o[j:]
		case 7: // truncate
			s = s[:m.R.Intn(len(s)+1)]
		case 8: // swap two lines
			lines := strings.SplitAfter(s, "\n")
			if len(lines) > 1 {
				i, j := m.R.Intn(len(lines)), m.R.Intn(len(lines))
				lines[i], lines[j] = lines[j], lines[i]
				s = strings.Join(lines, "")
			}
		case 9: // flip one byte
			if len(s) > 0 {
				i := m.R.Intn(len(s))
				b := []byte(s)
				b[i] = byte(m.R.Intn(256))
				s = string(b)
			}
		case 11: // put something in front of the whole input
			s = core.Pick(m.R, mutPrefixes) + s
		case 10: // move a line's content onto one line with another (delete newline + indentation)
			if i := strings.Index(s, "\n    "); i >= 0 {
				s = s[:i] + " " + s[i+5:]
			}
		}
		if len(s) > 6000 {
			s = s[:6000]
		}
	}
	return s
}

// RawBytes draws a random byte string with a high rate of bytes >= 0x80.
func RawBytes(r *core.Rng) string {
	n := r.Range(0, 40)
	b := make([]byte, n)
	for i := range b {
		switch {
		case r.Chance(30):
			b[i] = byte(0x80 + r.Intn(0x80))
		case r.Chance(40):
			b[i] = core.Pick(r, []byte("task(){}\"#,:=->\n\r \t_aX"))
		default:
			b[i] = byte(r.Intn(0x80))
		}
	}
	return string(b)
}
