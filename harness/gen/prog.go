// Package gen produces workloads: abstract spokfiles and their admissible
// concrete layouts, class-alphabet strings, seeded mutants.
package gen

import (
	"fmt"
	"strings"

	"verif/harness/core"

	"github.com/FollowTheProcess/spok/ast"
)

// Arg is a dependency, output or call argument: a quoted string or an identifier.
type Arg struct {
	Ident bool   `json:"ident,omitempty"`
	Text  string `json:"text"`
}

// Stmt is one top-level statement of an abstract spokfile.
type Stmt struct {
	Kind string `json:"kind"`           // comment | assign | task
	Text string `json:"text,omitempty"` // comment: raw text after '#'
	Name string `json:"name,omitempty"`
	// assign
	Str  *string `json:"str,omitempty"`  // string value
	Call string  `json:"call,omitempty"` // builtin name
	Args []Arg   `json:"args,omitempty"`
	// task
	Doc  *string  `json:"doc,omitempty"` // raw docstring text after '#'; nil = none
	Deps []Arg    `json:"deps,omitempty"`
	Outs []Arg    `json:"outs,omitempty"`
	Cmds []string `json:"cmds,omitempty"`
}

type Prog struct {
	Stmts []Stmt `json:"stmts"`
}

// Chooser abstracts how layout decisions are taken: randomly, or by exhaustive
// enumeration of all decision sequences.
type Chooser interface {
	Choose(n int) int
}

type RandChooser struct{ R *core.Rng }

func (c RandChooser) Choose(n int) int { return c.R.Intn(n) }

// Odometer enumerates every sequence of choices (depth-first).
type Odometer struct {
	arity []int
	value []int
	pos   int
}

func (o *Odometer) Choose(n int) int {
	if o.pos < len(o.value) {
		if o.arity[o.pos] != n {
			// the decision tree changed shape under an earlier choice: restart this suffix
			o.arity = o.arity[:o.pos]
			o.value = o.value[:o.pos]
		} else {
			v := o.value[o.pos]
			o.pos++
			return v
		}
	}
	o.arity = append(o.arity, n)
	o.value = append(o.value, 0)
	o.pos++
	return 0
}

// Next advances to the next sequence; false when all have been produced.
func (o *Odometer) Next() bool {
	for i := len(o.value) - 1; i >= 0; i-- {
		if o.value[i]+1 < o.arity[i] {
			o.value[i]++
			o.value = o.value[:i+1]
			o.arity = o.arity[:i+1]
			o.pos = 0
			return true
		}
	}
	return false
}

// ---------------------------------------------------------------------------
// Domains

var namePool = []string{
	"a", "b", "X", "FOO", "build", "test_all", "_x", "é", "名前", "Ünï", "taskx", "tasks", "Task", "xtask",
	"lint", "BIN", "out_dir", "ζ", "default", "clean", "q", "a_rather_long_task_name_for_line_wrapping",
}

var callPool = []string{"join", "exec", "other"}

var strPieces = []string{
	"a", "file.go", "**/*.go", "*.txt", " ", "src/", "$HOME", "{", "}", "{{.X}}", "é", "日本", "#", "->", ":=",
	"(", ")", ",", "task", "'", "\\", "\t", "x y", ".", "", "0", "-", "%s",
	"\u200c", "\u200d", "\u00ad", "\ufeff", "e\u0301", "'q'", "it's", "\u202e",
	"a/very/long/path/to/some/source/file/that/goes/on/and/on.go", "another/quite/long/dependency/path/**/*.txt",
}

var cmdHeads = []string{"echo", "go", "printf", "test", "a", "Z", "mkdir", "true", "task", "tasks", "taskfile"}

var cmdPieces = []string{
	" ", "x", "./...", "-race", "{{.X}}", "{{.NAME}}", "$HOME", "\"q\"", "'s'", "|", "&&", ">", "a.txt", "\t",
	"-", "=", "1", "(", ")", ",", ";", "\\", ":=", "->", "task", "{{", "{{.A}}/{{.B}}", "*", "~", "%",
	" && go test -race -count=1 -coverprofile=coverage.out ./internal/... ./cmd/... && go tool cover -html=coverage.out",
	"     aligned   in   columns     ",
}

var commentPieces = []string{
	" a comment", "no space", " ", "  two", " é ünï", " task t() {}", " #", "#", " x := \"y\"", "\t tab", " -> (", " 日本語",
	" trailing ", " zw\u200cnj", " soft\u00adhyphen", " \ufeffbom", " it's 'quoted'",
}

// RandName draws an identifier (letters and '_' only, never the bare keyword).
func RandName(r *core.Rng) string {
	if r.Chance(70) {
		return core.Pick(r, namePool)
	}
	letters := []string{"a", "b", "Z", "_", "é", "k", "t", "ß", "中"}
	n := r.Range(1, 6)
	var b strings.Builder
	for i := 0; i < n; i++ {
		b.WriteString(core.Pick(r, letters))
	}
	if b.String() == "task" {
		return "taskk"
	}
	return b.String()
}

func randStr(r *core.Rng) string {
	n := r.Range(0, 3)
	var b strings.Builder
	for i := 0; i < n; i++ {
		b.WriteString(core.Pick(r, strPieces))
	}
	return b.String()
}

func randArg(r *core.Rng) Arg {
	if r.Chance(40) {
		return Arg{Ident: true, Text: RandName(r)}
	}
	return Arg{Text: randStr(r)}
}

func randArgs(r *core.Rng, max int) []Arg {
	n := r.Range(0, max)
	var xs []Arg
	for i := 0; i < n; i++ {
		xs = append(xs, randArg(r))
	}
	return xs
}

// RandCmd draws a command line: first rune an ASCII letter, then printable ASCII
// and TAB without '}' and '#', no trailing blank. '{{.NAME}}' groups are allowed.
func RandCmd(r *core.Rng) string {
	var b strings.Builder
	b.WriteString(core.Pick(r, cmdHeads))
	n := r.Range(0, 5)
	for i := 0; i < n; i++ {
		b.WriteString(core.Pick(r, cmdPieces))
	}
	s := strings.TrimRight(b.String(), " \t")
	return s
}

func randComment(r *core.Rng) string {
	if r.Chance(10) {
		return ""
	}
	n := r.Range(1, 2)
	var b strings.Builder
	for i := 0; i < n; i++ {
		b.WriteString(core.Pick(r, commentPieces))
	}
	return b.String()
}

// RandProg draws an abstract spokfile with 0..maxStmts statements.
func RandProg(r *core.Rng, maxStmts int) Prog {
	n := r.Range(0, maxStmts)
	var p Prog
	for i := 0; i < n; i++ {
		switch k := r.Intn(10); {
		case k < 2:
			p.Stmts = append(p.Stmts, Stmt{Kind: "comment", Text: randComment(r)})
		case k < 5:
			st := Stmt{Kind: "assign", Name: RandName(r)}
			if st.Name == "task" {
				st.Name = "tasc"
			}
			if r.Chance(60) {
				s := randStr(r)
				st.Str = &s
			} else {
				st.Call = core.Pick(r, callPool)
				st.Args = randArgs(r, 4)
			}
			p.Stmts = append(p.Stmts, st)
		default:
			st := Stmt{Kind: "task", Name: RandName(r)}
			if r.Chance(50) {
				d := randComment(r)
				st.Doc = &d
			}
			st.Deps = randArgs(r, 4)
			if r.Chance(50) {
				st.Outs = randArgs(r, 4)
			}
			nc := r.Range(0, 5)
			for j := 0; j < nc; j++ {
				st.Cmds = append(st.Cmds, RandCmd(r))
			}
			p.Stmts = append(p.Stmts, st)
		}
	}
	p.Normalise()
	return p
}

// Normalise enforces the language rule that a comment directly before a task is
// that task's docstring: such a comment statement is folded into the task (when
// the task has no docstring of its own) or separated by an assignment.
func (p *Prog) Normalise() {
	var out []Stmt
	for _, st := range p.Stmts {
		if st.Kind == "task" && st.Doc == nil && len(out) > 0 && out[len(out)-1].Kind == "comment" {
			t := out[len(out)-1].Text
			out = out[:len(out)-1]
			st.Doc = &t
		}
		out = append(out, st)
	}
	p.Stmts = out
}

// ---------------------------------------------------------------------------
// Layout writer

type Layout struct {
	C     Chooser
	EOL   string // "\n" or "\r\n"; "" = choose per line (mixed)
	Small bool   // small arities (for exhaustive enumeration)
}

func (l *Layout) eol() string {
	if l.EOL != "" {
		return l.EOL
	}
	if l.C.Choose(2) == 0 {
		return "\n"
	}
	return "\r\n"
}

func (l *Layout) indent() string {
	if l.Small {
		return []string{"", "  ", "\t"}[l.C.Choose(3)]
	}
	return []string{"", "", " ", "    ", "\t", "\t\t", "  \t", "        "}[l.C.Choose(8)]
}

// sp is optional blank space around punctuation.
func (l *Layout) sp() string {
	if l.Small {
		return []string{"", " "}[l.C.Choose(2)]
	}
	// (blank space is whatever Unicode calls a space: a no-break space pasted from a web page, an
	// ideographic space from a CJK input method)
	return []string{"", "", " ", " ", "  ", "\t", " \t ", "\u00a0", "\u3000 "}[l.C.Choose(9)]
}

// sp1 is mandatory blank space.
func (l *Layout) sp1() string {
	if l.Small {
		return []string{" ", "\t"}[l.C.Choose(2)]
	}
	return []string{" ", " ", "  ", "\t", " \t"}[l.C.Choose(5)]
}

func (l *Layout) blanks(b *strings.Builder) {
	n := 0
	if l.Small {
		n = l.C.Choose(2)
	} else {
		n = []int{0, 0, 0, 1, 1, 2, 3}[l.C.Choose(7)]
	}
	for i := 0; i < n; i++ {
		if !l.Small && l.C.Choose(4) == 0 {
			b.WriteString([]string{" ", "\t", "   "}[l.C.Choose(3)])
		}
		b.WriteString(l.eol())
	}
}

func (l *Layout) arg(a Arg) string {
	if a.Ident {
		return a.Text
	}
	return `"` + a.Text + `"`
}

// list writes a parenthesised list: blanks around punctuation, optional trailing
// comma, line breaks only after '(' and after ','.
func (l *Layout) list(b *strings.Builder, args []Arg) {
	b.WriteString("(")
	brk := func() {
		if l.C.Choose(4) == 0 {
			b.WriteString(l.eol())
			b.WriteString(l.indent())
		}
	}
	b.WriteString(l.sp())
	if len(args) > 0 {
		brk()
	}
	for i, a := range args {
		b.WriteString(l.arg(a))
		if i < len(args)-1 {
			b.WriteString(l.sp())
			b.WriteString(",")
			b.WriteString(l.sp())
			brk()
		}
	}
	if len(args) > 0 && l.C.Choose(3) == 0 {
		b.WriteString(l.sp())
		b.WriteString(",")
		if l.C.Choose(3) == 0 {
			b.WriteString(l.eol())
			b.WriteString(l.indent())
		}
	} else if !l.Small && len(args) > 0 && args[len(args)-1].Ident && l.C.Choose(5) == 0 {
		// the closing parenthesis on a line of its own, directly after an identifier (after a string
		// the pinned grammar wants the comma first)
		b.WriteString(l.eol())
		b.WriteString(l.indent())
	}
	b.WriteString(l.sp())
	b.WriteString(")")
}

// Write renders the program in one admissible layout.
func (l *Layout) Write(p Prog) string {
	var b strings.Builder
	l.blanks(&b)
	for i, st := range p.Stmts {
		last := i == len(p.Stmts)-1
		switch st.Kind {
		case "comment":
			b.WriteString(l.indent())
			b.WriteString("#")
			b.WriteString(st.Text)
		case "assign":
			b.WriteString(l.indent())
			b.WriteString(st.Name)
			b.WriteString(l.sp())
			b.WriteString(":=")
			b.WriteString(l.sp())
			if st.Str != nil {
				b.WriteString(`"` + *st.Str + `"`)
				// blanks left after the closing quote are accepted by the pinned grammar when the next
				// statement is another assignment (before a task, a comment or the end they are an error)
				if !l.Small && i+1 < len(p.Stmts) && p.Stmts[i+1].Kind == "assign" && l.C.Choose(4) == 0 {
					b.WriteString(l.sp1())
				}
			} else {
				b.WriteString(st.Call)
				b.WriteString(l.sp())
				l.list(&b, st.Args)
			}
		case "task":
			if st.Doc != nil {
				b.WriteString(l.indent())
				b.WriteString("#")
				b.WriteString(*st.Doc)
				b.WriteString(l.eol())
				l.blanks(&b)
			}
			b.WriteString(l.indent())
			b.WriteString("task")
			b.WriteString(l.sp1())
			b.WriteString(st.Name)
			b.WriteString(l.sp())
			l.list(&b, st.Deps)
			b.WriteString(l.sp())
			if len(st.Outs) > 0 {
				b.WriteString("->")
				b.WriteString(l.sp())
				if len(st.Outs) == 1 && l.C.Choose(2) == 0 {
					b.WriteString(l.arg(st.Outs[0]))
					if !l.Small && st.Outs[0].Ident && l.C.Choose(5) == 0 {
						b.WriteString(l.eol()) // the opening brace on the next line, after a bare identifier
					}
				} else {
					l.list(&b, st.Outs)
				}
				b.WriteString(l.sp())
			}
			b.WriteString("{")
			l.body(&b, st.Cmds)
			b.WriteString("}")
		}
		if !last || l.C.Choose(4) != 0 {
			b.WriteString(l.eol())
			l.blanks(&b)
		}
	}
	return b.String()
}

func (l *Layout) body(b *strings.Builder, cmds []string) {
	if len(cmds) == 0 {
		switch l.C.Choose(3) {
		case 0:
		case 1:
			b.WriteString(" ")
		case 2:
			b.WriteString(l.eol())
			l.blanks(b)
			b.WriteString(l.indent())
		}
		return
	}
	if len(cmds) == 1 && l.C.Choose(3) == 0 {
		// one-line body: { cmd } or {cmd}
		b.WriteString([]string{"", " ", "\t"}[l.C.Choose(3)])
		b.WriteString(cmds[0])
		b.WriteString([]string{"", " "}[l.C.Choose(2)])
		return
	}
	// multi-line body; the first command may share the line of '{', the last one the line of '}'
	if l.C.Choose(5) == 0 {
		b.WriteString(" ")
	} else {
		b.WriteString(l.eol())
		l.blanks(b)
		b.WriteString(l.indent())
	}
	for i, c := range cmds {
		b.WriteString(c)
		if i == len(cmds)-1 && l.C.Choose(6) == 0 {
			b.WriteString([]string{"", " "}[l.C.Choose(2)])
			return
		}
		b.WriteString(l.eol())
		l.blanks(b)
		b.WriteString(l.indent())
	}
}

// ---------------------------------------------------------------------------
// Projection of a parsed tree onto the abstract structure

// Project turns a parsed tree into the abstract structure it denotes.
func Project(t ast.Tree) (Prog, error) {
	var p Prog
	for _, n := range t.Nodes {
		switch v := n.(type) {
		case ast.Comment:
			p.Stmts = append(p.Stmts, Stmt{Kind: "comment", Text: v.Text})
		case ast.Assign:
			st := Stmt{Kind: "assign", Name: v.Name.Name}
			switch val := v.Value.(type) {
			case ast.String:
				s := val.Text
				st.Str = &s
			case ast.Function:
				st.Call = val.Name.Name
				args, err := projArgs(val.Arguments)
				if err != nil {
					return p, err
				}
				st.Args = args
			case ast.Ident:
				st.Call = "<ident>"
				st.Args = []Arg{{Ident: true, Text: val.Name}}
			default:
				return p, fmt.Errorf("unexpected assign value %T", v.Value)
			}
			p.Stmts = append(p.Stmts, st)
		case ast.Task:
			st := Stmt{Kind: "task", Name: v.Name.Name}
			if v.Docstring.Text != "" {
				d := v.Docstring.Text
				st.Doc = &d
			}
			deps, err := projArgs(v.Dependencies)
			if err != nil {
				return p, err
			}
			outs, err := projArgs(v.Outputs)
			if err != nil {
				return p, err
			}
			st.Deps, st.Outs = deps, outs
			for _, c := range v.Commands {
				st.Cmds = append(st.Cmds, c.Command)
			}
			p.Stmts = append(p.Stmts, st)
		default:
			return p, fmt.Errorf("unexpected node %T", n)
		}
	}
	return p, nil
}

func projArgs(ns []ast.Node) ([]Arg, error) {
	var out []Arg
	for _, n := range ns {
		switch v := n.(type) {
		case ast.String:
			out = append(out, Arg{Text: v.Text})
		case ast.Ident:
			out = append(out, Arg{Ident: true, Text: v.Name})
		default:
			return nil, fmt.Errorf("unexpected argument node %T", n)
		}
	}
	return out, nil
}

// Canon renders a structure canonically so that two can be compared as strings.
// An empty docstring and no docstring are the same structure.
func (p Prog) Canon() string {
	var b strings.Builder
	args := func(xs []Arg) {
		b.WriteString("[")
		for _, a := range xs {
			if a.Ident {
				fmt.Fprintf(&b, "i:%q ", a.Text)
			} else {
				fmt.Fprintf(&b, "s:%q ", a.Text)
			}
		}
		b.WriteString("]")
	}
	for _, st := range p.Stmts {
		switch st.Kind {
		case "comment":
			fmt.Fprintf(&b, "comment %q\n", st.Text)
		case "assign":
			if st.Str != nil {
				fmt.Fprintf(&b, "assign %q = s:%q\n", st.Name, *st.Str)
			} else {
				fmt.Fprintf(&b, "assign %q = call %q ", st.Name, st.Call)
				args(st.Args)
				b.WriteString("\n")
			}
		case "task":
			doc := ""
			if st.Doc != nil {
				doc = *st.Doc
			}
			fmt.Fprintf(&b, "task %q doc=%q deps=", st.Name, doc)
			args(st.Deps)
			b.WriteString(" outs=")
			args(st.Outs)
			fmt.Fprintf(&b, " cmds=%q\n", st.Cmds)
		}
	}
	return b.String()
}
